"""Engine E7 - filesystem effects: C17 (edit under crash / I/O error) and C18 (read-only
commands, create writes one file, rename never clobbers)."""
from . import fsrun
from .core import BLOCK, Machinery
from .e1 import mk_tree
from .edit import FIELDS
from .engine import Prop

B = BLOCK


class FsProp(Prop):
    engine = "E7-filesystem-effects"
    trace = ("TraceFs.tla", "Trace_Fs.cfg")
    timeout = 600


class C17(FsProp):
    pid = "C17"
    level = "model_checking"
    runner = staticmethod(fsrun.run_editfault)
    design_ref = "DESIGN.md section 6 C17"
    level_text = ("TLC checks EditFs.tla (the filesystem operations of edit in program order with Crash, Fail and "
                  "TornWrite enabled at every point, and unencodable requests) for 'the metafile path always holds the "
                  "complete old or new file' - the remove-then-write order of the pinned commit is a must-fail variant. "
                  "Conformance: the real edit runs under an operation log; for EVERY logged operation a crash "
                  "(os._exit), EACCES, ENOSPC and - for writes - a short write with and without crash are injected in a "
                  "forked child; TLC replays each log on the FS model (predicted = observed content class), evaluates "
                  "the invariant on every prefix and judges what was found on disk.")
    rule = ("cases = edit requests (field forms incl. unencodable values) x entry (library, CLI) x version; each "
            "expands to one fault-free run plus one run per (logged operation, fault kind); non-trivial = faulted "
            "runs, distinct by (request, entry, op index, fault kind)")
    assumptions = [
        "process death loses data still buffered in Python file objects and keeps what was flushed (no power-loss model)",
        "operations are observed through sys.addaudithook and wrapped write-mode file objects (builtins.open / io.open); raw os.write on descriptors is not intercepted",
        "content classes Old/New/Absent/Empty/Partial/Other are assigned by byte comparison with the original and with the result of the fault-free run",
    ]

    def mc(self, tier):
        return [{"module": "EditFs.tla", "cfg": "MC_EditFs.cfg", "coverage": True, "workers": 2, "coverage_exempt": ["EditFs!ShortCount", "EditFs!Handle", "EditFs!HandleCrash"],
                 "what": "edit FS program (fixed variant) x Crash/Fail/TornWrite at every point x encodable or not"},
                {"module": "EditFs.tla", "cfg": "MC_EditFs_bakchecked.cfg", "coverage": True, "workers": 2,
                 # (HandleCrash is taken 67 times; the states it reaches are the ones Crash reaches - no distinct new state)
                 "coverage_exempt": ["EditFs!ShortCount", "EditFs!HandleCrash"],
                 "what": "a safety copy made first and put back on error only once it is known to be complete: safe as well"},
                {"module": "EditFs.tla", "cfg": "MC_EditFs_bakrollback.cfg", "expect": "fail", "workers": 2,
                 "what": "seed R26-C17: every error answered by renaming the safety copy over M - also when the copy itself failed part way"},
                {"module": "EditFs.tla", "cfg": "MC_EditFs_code.cfg", "expect": "fail", "workers": 2,
                 "what": "remove-then-write (pinned commit) must violate NeverLost"},
                {"module": "EditFs.tla", "cfg": "MC_EditFs_notrunc.cfg", "expect": "fail", "workers": 2,
                 "what": "temporary file opened without truncation: unsafe after an interrupted edit (Restart)"},
                {"module": "EditFs.tla", "cfg": "MC_EditFs_shortcount.cfg", "expect": "fail", "workers": 2,
                 "what": "one unbuffered write whose short count is ignored (seeds R13-C17 / R14-C17): a partial file is renamed onto M"},
                {"module": "EditFs.tla", "cfg": "MC_EditFs_inwith.cfg", "expect": "fail", "workers": 2,
                 "what": "os.replace while the temporary file is still open: the rename carries an empty file to M "
                         "(open handles follow renames in FsModel)"}]

    def cases(self, tier, rng):
        cl = ["C17.safe", "C17.error", "C17.prefix", "C17.works", "X17.fsmodel"]
        reqs = []
        for f in FIELDS:
            forms = ["s1", "c"] + (["unenc", "unenctext"] if f != "private" else [])
            for form in forms:
                r = {g: "u" for g in FIELDS}
                r[f] = form
                reqs.append(r)
        reqs.append({"comment": "s1", "source": "c", "private": "s1", "announce": "s2", "url-list": "s1", "httpseeds": "c"})
        reqs.append({g: "u" for g in FIELDS})
        if tier == "thorough":      # every pair of fields, one set and one cleared
            for a in FIELDS:
                for b in FIELDS:
                    if a < b:
                        r = {g: "u" for g in FIELDS}
                        r[a], r[b] = "s1", "c"
                        reqs.append(r)
        out = []
        versions = (1, 2, 3) if tier == "thorough" else (1, 3)
        for v in versions:
            for k, r in enumerate(reqs):
                entries = ["lib"]
                if "unenc" not in r.values() and "unenctext" not in r.values() and all(not (form == "c" and f not in ("comment", "source")) for f, form in r.items()):
                    entries.append("cli")
                if tier != "thorough" and (k + v) % 2:
                    entries = entries[:1]
                for e in entries:
                    # names at the limit of what the filesystem accepts: 255 bytes (no room for any suffix: the edit
                    # may fail, but must not hurt the file) and 251 bytes (exactly room for four more)
                    names = ("m.torrent", "fetched.tmp", "noext", "x.y.torrent", "m.torrent.tmp", "L" * 247 + ".torrent",
                             "K" * 243 + ".torrent")
                    for mname in (names if tier == "thorough" and k < 14 else (names[k % 7],)):
                        out.append({"version": v, "P": B, "tree": mk_tree("D2", (B + 1, 3 * B)) if (k + v) % 3 else mk_tree("S1", (2 * B + 5,)),
                                    "req": r, "entry": e,
                                    "present": ["announce", "comment"] if k % 2 else [],
                                    "clauses": [c for c in cl if c != "C17.works" or len(mname) <= 251],
                                    # every third request: the metafile lives on another filesystem than the
                                    # system temp directory (a rename from there is impossible)
                                    "other_fs": k % 3 == 0,
                                    # the metafile need not be called *.torrent
                                    "meta_name": mname,
                                    # the metafile path is a symbolic link to a file kept elsewhere
                                    "meta_symlink": k % 4 == 1, "deep_torn": tier == "thorough"})
        return out

    def corruptions(self, recs):
        import copy
        from .mutate import first
        out = []
        for r in first(recs, lambda r: r["status"] == "ok" and r["fault"]["at"] == 0 and r["fault"]["kind"] == "none"):
            m = copy.deepcopy(r)
            m["final"] = "Empty"
            out.append((m, "C17.safe"))
            m = copy.deepcopy(r)
            m["ops"] = [{"n": 0, "kind": "remove", "p": "M", "p2": "", "d": "", "extra": -1}] + m["ops"]
            out.append((m, "C17.prefix"))
        return out

    def case_id(self, rec_id):
        return rec_id // 1000

    def records(self, cases, results):
        out = []
        for rs in results:
            if isinstance(rs, dict):
                raise Machinery("edit fault case timed out: %s" % rs)
            out.extend(rs)
        self._faulted = sum(1 for r in out if r["fault"]["at"] > 0)
        self._crashes = sum(1 for r in out if r["fault"]["kind"] in ("crash", "torncrash"))
        return out

    def nontrivial(self, case):
        return (case["version"], case["entry"], tuple(sorted(case["req"].items())))

    def signature(self, case, rec, clause):
        if clause.startswith("X17"):
            return clause
        f = rec["fault"] if rec else {"kind": "?", "at": 0}
        return "%s/%s" % (clause, "unenc" if rec and not rec.get("encodable", True) else f["kind"])

    def sample(self, case, rec):
        return {"version": case["version"], "entry": case["entry"], "req": case["req"],
                "meta_name": case.get("meta_name"), "other_fs": case.get("other_fs"),
                "reference_ops": [(o["kind"], o["p"]) for o in rec["ops"]] if rec else None}

    def extra_coverage(self, tier, cases, recs):
        return {"faults_injected": self._faulted, "crash_points": self._crashes,
                "distinct_nontrivial": len({(r["id"]) for r in recs if r["fault"]["at"] > 0})}


class C18(FsProp):
    pid = "C18"
    runner = staticmethod(fsrun.run_cmd)
    design_ref = "DESIGN.md section 6 C18"
    level_text = ("TLC checks the command programs over the abstract filesystem against the per-command policies "
                  "(FsPolicy.tla) and validates the operation log and before/after snapshots of the real commands "
                  "(all spellings, intact and damaged trees, outfile forms, pre-existing targets) against the same "
                  "policies (TraceFs.tla).")
    rule = ("cases = command x spelling x version x tree (intact / damaged) x outfile form / target state; distinct "
            "by all of these; non-trivial = every case (each executes the real command under the audit hook)")
    assumptions = ["mutations are observed by sys.addaudithook plus a recursive before/after snapshot (names, sizes, SHA-1, modes) of the sandbox"]

    def mc(self, tier):
        return [{"module": "FsPolicy.tla", "cfg": "MC_FsPolicy.cfg", "workers": 2,
                 "what": "command programs vs policies: read-only unchanged, create writes one, rename never clobbers"}]

    def cases(self, tier, rng):
        out = []
        trees = [("D2", (B + 1, 3 * B)), ("S1", (2 * B + 5,)), ("D3", (0, B, 5))]
        if tier == "thorough":      # unusual names, deep nesting, names on which path helpers disagree, hidden / key-like names
            from .e1 import SHAPES
            trees += [(sh, tuple((5, B + 1, 2 * B, 0, 7)[k % 5] for k in range(len(SHAPES[sh])))) for sh in ("DU", "D5", "DX", "DKEY", "DP")]
        for v in (1, 2, 3):
            for sh, sizes in trees:
                t = mk_tree(sh, sizes)
                dmgs = [[], [{"file": 0, "kind": "trunc", "arg": 1}]] + ([[{"file": len(sizes) - 1, "kind": "remove", "arg": 0}]] if sh != "S1" else [])
                for dmg in dmgs:
                    for sp in ("recheck", "check"):
                        for pre in ([], ["-q"], ["-v"]):
                            out.append({"cmd": "recheck", "spelling": sp, "pre": pre, "version": v, "P": B, "tree": t,
                                        "damage": dmg, "clauses": ["C18.readonly"]})
                    out.append({"cmd": "recheck", "spelling": "recheck", "path_mode": "parent", "version": v, "P": B,
                                "tree": t, "damage": dmg, "clauses": ["C18.readonly"]})
                out.append({"cmd": "info", "version": v, "P": B, "tree": t, "clauses": ["C18.readonly"],
                            "opts": {"announce": ["http://a/x", "http://b/y"], "url_list": ["http://w/", "http://w2/"],
                                     "httpseeds": ["http://h/"], "comment": "c", "source": "s", "private": True}})
                out.append({"cmd": "info", "version": v, "P": B, "tree": t, "clauses": ["C18.readonly"], "opts": {}})
                for sp in ("magnet", "m"):
                    for mver in (None, 0, 1, 2, 3):
                        if mver in (2, 3) and v == 1:
                            continue
                        out.append({"cmd": "magnet", "spelling": sp, "mver": mver, "version": v, "P": B, "tree": t,
                                    "clauses": ["C18.readonly"]})
                for sp in ("create", "new", "implicit"):
                    for form in ("file", "dir", "cwd"):
                        for pre_ex in (False, True, "hardlink", "symlink"):
                            out.append({"cmd": "create", "spelling": sp, "outform": form, "preexisting": pre_ex,
                                        "version": v, "P": B, "tree": t, "progress": (len(out) % 3),
                                        "align": v == 1 and len(out) % 2 == 0, "clauses": ["C18.create"],
                                        "dot_torrent": form != "file" and pre_ex in (True, "hardlink")})
                for tex in (False, True):
                    for cwdm in ("metadir", "elsewhere"):
                        for decoy in (False, True):
                            if decoy and cwdm != "elsewhere":
                                continue
                            out.append({"cmd": "rename", "target_exists": tex, "cwd_mode": cwdm, "decoy_in_cwd": decoy,
                                        "version": v, "P": B, "tree": t, "clauses": ["C18.rename"]})
        # rename with the payload lying next to the metafile, torrents whose own name ends in ".torrent" / has
        # several dots / is hidden
        from .e1 import FILE_NAMES, DIR_NAMES
        for v in (1, 2, 3):
            for nm in ("x.torrent", "pack.TORRENT", "a.tar.gz", ".hidden"):
                for single in (True, False):
                    t = mk_tree("S1", (2 * B + 5,), name=nm) if single else mk_tree("D2", (B + 1, 5), name=nm)
                    for tex in (False, True):
                        out.append({"cmd": "rename", "target_exists": tex, "cwd_mode": "metadir", "decoy_in_cwd": False,
                                    "payload_beside": True, "version": v, "P": B, "tree": t, "clauses": ["C18.rename"]})
        for c in [c for c in out if c["cmd"] == "rename" and not c.get("decoy_in_cwd")]:
            out.append(dict(c, case_twin=True))
        for k, c in enumerate(out):
            if c["cmd"] != "rename":
                c["cwd_mode"] = "elsewhere" if k % 3 == 0 else "metadir"
            c["clutter"] = (k % 4) in (1, 2)
        if tier != "thorough":
            out = [c for k, c in enumerate(out) if c["cmd"] in ("rename", "info") or k % 2 == 0
                   or (c.get("pre") == ["-v"] and c.get("damage"))      # verbose runs on damaged content are always kept
                   or (c.get("preexisting") in ("hardlink", "symlink") and (k // 2) % 2 == 0)]
        return out

    def corruptions(self, recs):
        import copy
        from .mutate import first
        out = []
        for r in first(recs, lambda r: r["cmd"] in ("recheck", "info", "magnet") and r["status"] == "ok"):
            m = copy.deepcopy(r)
            m["ops"] = [{"kind": "open_trunc", "p": "P:a", "p2": "", "d": "", "extra": -1}]
            out.append((m, "C18.readonly"))
        for r in first(recs, lambda r: r["cmd"] == "create" and r["status"] == "ok"):
            m = copy.deepcopy(r)
            m["added"] = m["added"] + ["T9"]
            out.append((m, "C18.create"))
        for r in first(recs, lambda r: r["cmd"] == "rename" and r["status"] == "ok"):
            m = copy.deepcopy(r)
            m["same_bytes"] = False
            out.append((m, "C18.rename"))
        return out

    def nontrivial(self, case):
        return (case["cmd"], case.get("spelling"), case["version"], case["tree"]["name"], str(case.get("damage")),
                case.get("outform"), case.get("preexisting"), case.get("target_exists"), str(case.get("pre")),
                case.get("mver"), case.get("path_mode"), case.get("cwd_mode"), case.get("decoy_in_cwd"), case.get("clutter"), case.get("case_twin"))

    def signature(self, case, rec, clause):
        return "%s/%s" % (clause, case["cmd"] if case else "?")

    def sample(self, case, rec):
        return {"cmd": case["cmd"], "spelling": case.get("spelling"), "version": case["version"],
                "ops": [(o["kind"], o["p"]) for o in rec["ops"]] if rec else None,
                "added": rec.get("added") if rec else None}


PROPS = {"C17": C17, "C18": C18}
