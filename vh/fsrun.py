"""Drivers for filesystem-effect properties: C17 (edit under crashes / I/O errors) and C18
(read-only commands, create writes one file, rename never clobbers)."""
import json
import os
import shutil
import sys

from . import alpha, fstrace
from .core import new_sandbox, rm, snapshot
from .create import create_meta
from .edit import concrete

UNENC = object()


def _role_fn(meta_path, extra=None, alias=None):
    """alias: the file a symbolic link at the metafile path points to - the same file for a reader of M"""
    d = os.path.dirname(meta_path)
    temps = {}

    def role(p):
        if not p:
            return ""
        ap = os.path.abspath(p)
        if extra and ap in extra:
            return extra[ap]
        if ap == os.path.abspath(meta_path) or (alias and ap == alias):
            return "M"
        if os.path.dirname(ap) == d:
            return temps.setdefault(ap, "T%d" % (len(temps) + 1))
        return "X:" + ap
    return role


def _classify(path, old, new):
    if not os.path.exists(path):
        return "Absent"
    with open(path, "rb") as fh:
        b = fh.read()
    if b == old:
        return "Old"
    if new is not None and b == new:
        return "New"
    if not b:
        return "Empty"
    if old.startswith(b) or (new is not None and new.startswith(b)):
        return "Partial"
    return "Other"


def _edit_args(req, step=1):
    args = {}
    for f, form in req.items():
        if form == "u":
            args[f] = None
        elif form == "c":
            args[f] = ""
        elif form == "unenc":
            args[f] = 3.25 if f in ("comment", "source") else [3.25]
        elif form == "unenctext":     # text that has no UTF-8 encoding: a lone surrogate, as argv decoding produces it
            args[f] = "caf\udce9 x" if f in ("comment", "source") else ["http://t.example/caf\udce9"]
        else:
            v = concrete(step, f, form)
            args[f] = v
    return args


def _edit_argv(req, out, step=1):
    argv = ["edit", out]
    for f, form in req.items():
        if form in ("u",):
            continue
        if form == "c":
            argv += ["--" + f, ""]
        elif f == "private":
            argv += ["--private"]
        elif f in ("comment", "source"):
            argv += ["--" + f, concrete(step, f, form)]
        else:
            argv += [{"announce": "--tracker", "url-list": "--web-seed", "httpseeds": "--http-seed"}[f]] + concrete(step, f, form)
    return argv


def _do_edit(entry, req, out):
    if entry == "cli":
        from torrentfile.cli import execute
        execute(_edit_argv(req, out))
    else:
        from torrentfile.edit import edit_torrent
        edit_torrent(out, _edit_args(req))


def _abstract_ops(log, role, new):
    ops = []
    for e in log:
        if e["kind"] == "denied":
            continue
        ops.append({"n": e["n"], "kind": e["kind"], "p": role(e["path"]), "p2": role(e["path2"]),
                    "d": e.get("dclass", ""), "extra": e.get("extra", -1), "via": e.get("via", ""),
                    "src": role(e.get("src", "")) if e.get("src") else ""})
    return ops


def _label_writes(ops, new, oldlen=-1):
    """Name what each write leaves behind: a buffered write that brings the bytes written since the file was opened to
    exactly the new metafile's length completes it ("New"), one that stays below continues a prefix ("Partial", a
    streamed encoder writes many of those), anything else is "Other".  Direct writes report the file offset."""
    cum = {}
    n = len(new) if new is not None else -1
    for o in ops:
        if o["kind"].startswith("open_"):
            cum[o["p"]] = 0
        elif o["kind"] == "write":
            cum[o["p"]] = cum.get(o["p"], 0) + max(0, o["extra"])
            o["d"] = "New" if cum[o["p"]] == n else ("Partial" if 0 < cum[o["p"]] < n else "Other")
        elif o["kind"] == "dwrite" and o.get("via") == "sendfile" and o.get("src") == "M" and o["extra"] == oldlen:
            o["d"] = "Old"          # a complete copy of the metafile as it was (a backup)
        elif o["kind"] == "dwrite":
            o["d"] = "New" if o["extra"] == n else "Other"
    return ops


def _traced_child(entry, req, out, plan, logfile, root):
    """Run the edit in a forked child under tracing / fault plan.  Returns (status, log).
    An edit is not hostile: besides the sandbox the system temporary directory may be written."""
    import tempfile
    roots = (list(root) if isinstance(root, (list, tuple)) else [root]) + [tempfile.gettempdir()]
    pid = os.fork()
    if pid == 0:
        code = 0
        try:
            fstrace.start(roots, plan=plan, logfile=logfile)
            try:
                _do_edit(entry, req, out)
            except SystemExit:
                code = 3
            except BaseException:
                code = 3
            fstrace.stop()
            fstrace._flush_log()
        finally:
            os._exit(code)
    _, st = os.waitpid(pid, 0)
    code = os.waitstatus_to_exitcode(st)
    log = {"log": [], "denied": []}
    if os.path.exists(logfile):
        with open(logfile) as fh:
            log = json.load(fh)
        os.remove(logfile)
    status = {0: "ok", 3: "error", fstrace.CRASH_EXIT: "crash"}.get(code, "exit%d" % code)
    return status, log


def _other_fs_dir():
    """A scratch directory on a filesystem different from the system temp directory (tmpfs), or
    None: there a temporary file created in the system temp dir cannot be renamed into place."""
    import tempfile
    cand = "/dev/shm"
    try:
        if os.path.isdir(cand) and os.access(cand, os.W_OK) and \
                os.stat(cand).st_dev != os.stat(tempfile.gettempdir()).st_dev:
            return tempfile.mkdtemp(prefix="vh-otherfs-%d-" % os.getpid(), dir=cand)
    except OSError:
        pass
    return None


def run_editfault(case):
    """One edit request: reference run + one run per (operation, fault kind)."""
    sbx = new_sandbox("ef")
    other = _other_fs_dir() if case.get("other_fs") else None
    recs = []
    try:
        tree = case["tree"]
        root = alpha.materialize(tree, os.path.join(sbx, "p"))
        os.makedirs(os.path.join(sbx, "base"))
        base = os.path.join(sbx, "base", "m.torrent")
        opts = {}
        for f in case.get("present", []):
            v = concrete(0, f, "s1")
            opts[{"url-list": "url_list"}.get(f, f)] = v
        st = create_meta({"creator": "TorrentFile" if case["version"] == 1 else "TorrentAssembler",
                          "version": case["version"], "P": case["P"], "opts": opts}, root, base)
        if st != "ok":
            return [{"id": case["id"] * 1000, "op": "editfault", "clauses": case["clauses"], "ops": [],
                     "fault": {"at": 0, "kind": "none", "k": 0}, "status": "create:" + st, "final": "Absent",
                     "encodable": True, "same": False, "init": []}]
        with open(base, "rb") as fh:
            old = fh.read()
        req, entry = case["req"], case["entry"]
        encodable = "unenc" not in req.values() and "unenctext" not in req.values()
        run = [0]

        mname = case.get("meta_name", "m.torrent")
        alias = [None]

        def one(plan):
            run[0] += 1
            d = os.path.join(other or sbx, "r%d" % run[0])
            os.makedirs(d)
            out = os.path.join(d, mname)
            if case.get("meta_symlink"):      # the metafile path is a symbolic link to the file kept elsewhere
                os.makedirs(os.path.join(sbx, "store%d" % run[0]))
                alias[0] = os.path.join(sbx, "store%d" % run[0], "kept.torrent")
                shutil.copyfile(base, alias[0])
                os.symlink(alias[0], out)
            else:
                shutil.copyfile(base, out)
            status, log = _traced_child(entry, req, out, plan, os.path.join(sbx, "log%d.json" % run[0]),
                                        [sbx] + ([other] if other else []))
            return status, log, out

        status, log, out = one(None)
        new = None
        if status == "ok":
            with open(out, "rb") as fh:
                new = fh.read()
        role = _role_fn(out, alias=alias[0])
        ref_ops = _abstract_ops(log["log"], role, new)
        # label what each write wrote: re-run once more un-faulted is unnecessary - sizes identify it
        _label_writes(ref_ops, new, len(old))
        rid = case["id"] * 1000
        recs.append({"id": rid, "op": "editfault", "clauses": case["clauses"], "ops": ref_ops,
                     "fault": {"at": 0, "kind": "none", "k": 0}, "status": status,
                     "final": _classify(out, old, new), "encodable": encodable, "entry": entry,
                     "same": new == old, "init": []})
        nops = len(ref_ops)
        k = 0
        for at in range(1, nops + 1):
            kinds = ["crash", "eacces", "enospc"]
            if ref_ops[at - 1]["kind"] == "write" or ref_ops[at - 1].get("via") in ("oswrite", "sendfile"):
                kinds += ["torn", "torncrash"]        # (for os.write a torn write is a short count, not an error)
            # how much of a torn write reaches the disk: one byte; (thorough) also a few KiB and all but one byte
            plans = [(kind, 1) for kind in kinds]
            if case.get("deep_torn"):
                plans += [(kind, kk) for kind in kinds if kind in ("torn", "torncrash") for kk in (4096, 10 ** 9)]
            for kind, kk in plans:
                k += 1
                plan = {"at": at, "kind": kind, "k": kk}
                status, log, out = one(plan)
                role = _role_fn(out, alias=alias[0])
                ops = _abstract_ops(log["log"], role, new)
                _label_writes(ops, new, len(old))
                if kind in ("torn", "torncrash") and ops and at <= len(ops) and ops[at - 1].get("via") == "sendfile":
                    kk = max(0, ops[at - 1]["extra"])       # what the kernel really transferred before the error (0 at EOF)
                recs.append({"id": rid + k, "op": "editfault", "clauses": case["clauses"], "ops": ops,
                             "fault": {"at": min(at, len(ops)) if ops else 0, "kind": kind, "k": kk},
                             "status": status, "final": _classify(out, old, new), "encodable": encodable,
                             "entry": entry, "nops_ref": nops, "same": new == old, "init": []})
                # (a follow-up edit needs a metafile to edit: if the interrupted run lost it, the record above says so)
                if kind in ("crash", "torncrash") and case.get("followup", True) and not case.get("meta_symlink") \
                        and os.path.isfile(out):
                    k += 1
                    recs.append(_followup(case, rid + k, out, sbx, run))
        return recs
    finally:
        rm(sbx)
        if other:
            rm(other)


# the follow-up edit clears every optional field: its output is the shortest possible
FOLLOW_REQ = {"comment": "c", "source": "c", "private": "c", "announce": "c", "url-list": "c", "httpseeds": "c"}


def _followup(case, rid, out, sbx, run):
    """After a process death during an edit: a later (shorter) edit in the same directory must
    again leave the complete previous or the complete newly edited metafile."""
    d = os.path.dirname(out)
    with open(out, "rb") as fh:
        pre = fh.read() if os.path.isfile(out) else b""
    # expected result: the same follow-up edit applied to a clean copy of what is there now
    run[0] += 1
    clean = os.path.join(os.path.dirname(os.path.dirname(out)), "r%d" % run[0])
    os.makedirs(clean)
    cout = os.path.join(clean, os.path.basename(out))
    shutil.copyfile(out, cout)
    st0, _ = _traced_child("lib", FOLLOW_REQ, cout, None, os.path.join(sbx, "logc%d.json" % run[0]),
                           [sbx, os.path.dirname(os.path.dirname(out))])
    expected = None
    if st0 == "ok":
        with open(cout, "rb") as fh:
            expected = fh.read()
    leftovers = sorted(f for f in os.listdir(d) if f != os.path.basename(out))
    sizes = {f: os.path.getsize(os.path.join(d, f)) for f in leftovers}
    extra = {os.path.join(d, f): "T%d" % (n + 1) for n, f in enumerate(leftovers)}
    status, log = _traced_child("lib", FOLLOW_REQ, out, None, os.path.join(sbx, "logf%d.json" % run[0]),
                                [sbx, os.path.dirname(os.path.dirname(out))])
    role0 = _role_fn(out, extra)
    nt = [len(leftovers)]

    def role(p):
        r = role0(p)
        if r.startswith("T") and os.path.abspath(p) not in extra:
            extra[os.path.abspath(p)] = "T%d" % (nt[0] + 1)
            nt[0] += 1
            return extra[os.path.abspath(p)]
        return r
    ops = _abstract_ops(log["log"], role, expected)
    _label_writes(ops, expected)
    return {"id": rid, "op": "editfault", "clauses": [c for c in case["clauses"]], "ops": ops,
            "fault": {"at": 0, "kind": "followup", "k": 0}, "status": status,
            "final": _classify(out, pre, expected), "encodable": True, "entry": "lib",
            "same": expected == pre, "init": [[extra[os.path.join(d, f)], "Other", sizes[f]] for f in leftovers]}


# ---------------------------------------------------------------------------------------------
# C18: commands
# ---------------------------------------------------------------------------------------------
def _diff(before, after, role):
    added = sorted(role(p) for p in after if p not in before)
    removed = sorted(role(p) for p in before if p not in after)
    changed = sorted(role(p) for p in after if p in before and after[p] != before[p])
    return added, removed, changed


def run_cmd(case):
    sbx = new_sandbox("cm")
    try:
        tree = case["tree"]
        work = os.path.join(sbx, "w")
        root = alpha.materialize(tree, os.path.join(work, "p"))
        os.makedirs(os.path.join(work, "o"))
        cmd = case["cmd"]
        from .core import odd_meta
        meta = os.path.join(work, "o", odd_meta(case)[1] if cmd in ("recheck", "info", "magnet") else "m.torrent")
        v = case["version"]
        rec = {"id": case["id"], "op": "cmd", "cmd": cmd, "clauses": case["clauses"], "ops": [], "added": [],
               "removed": [], "changed": [], "status": "ok", "target_existed": False, "same_bytes": True,
               "fault": {"at": 0, "kind": "none", "k": 0}, "final": "", "encodable": True, "init": []}
        if cmd != "create":
            st = create_meta({"creator": "TorrentFile" if v == 1 else "TorrentAssembler", "version": v,
                              "P": case["P"], "opts": case.get("opts")}, root, meta)
            if st != "ok":
                rec["status"] = "create:" + st
                return rec
        # damage for the "damaged tree" variants
        for d in case.get("damage", []):
            p = os.path.join(root, *tree["files"][d["file"]]["path"]) if not tree.get("single") else root
            if d["kind"] == "remove" and os.path.exists(p) and not tree.get("single"):
                os.remove(p)
            elif d["kind"] == "trunc" and os.path.exists(p) and os.path.getsize(p) > d["arg"]:
                with open(p, "r+b") as fh:
                    fh.truncate(d["arg"])
        extra = {}
        argv = None
        outfile = None
        if cmd == "create":
            form = case.get("outform", "file")
            if form == "file":
                outfile = meta
                argv_out = ["-o", meta]
            elif form == "dir":
                outfile = os.path.join(work, "o", tree["name"] + ".torrent")
                argv_out = ["-o", os.path.join(work, "o") + os.sep]
                extra[os.path.join(work, "o", ".torrent")] = "probe"
            else:                       # default: current directory
                outfile = os.path.join(work, "o", tree["name"] + ".torrent")
                argv_out = []
                extra[os.path.join(work, "o", ".torrent")] = "probe"
            if case.get("preexisting") == "hardlink":
                # the previous output has a second name (a kept copy made with ln): only the output NAME may change
                with open(os.path.join(work, "o", "keep-previous.torrent"), "wb") as fh:
                    fh.write(b"d4:infod6:lengthi1e4:name1:x12:piece lengthi16384e6:pieces20:aaaaaaaaaaaaaaaaaaaaee")
                os.link(os.path.join(work, "o", "keep-previous.torrent"), outfile)
            elif case.get("preexisting") == "symlink":
                # the output path is a symbolic link to a file that is not the tool's to write: a payload member
                # (for a single-file payload: a file kept elsewhere)
                tgt = os.path.join(root, *tree["files"][-1]["path"]) if not tree.get("single") else os.path.join(work, "else-kept.bin")
                if tree.get("single"):
                    with open(tgt, "wb") as fh:
                        fh.write(b"kept elsewhere")
                os.symlink(tgt, outfile)
            elif case.get("preexisting"):
                with open(outfile, "wb") as fh:
                    fh.write(b"previous content")
            if case.get("dot_torrent"):       # somebody's file that happens to be called ".torrent" in the output directory
                with open(os.path.join(work, "o", ".torrent"), "wb") as fh:
                    fh.write(b"not yours")
                extra[os.path.join(work, "o", ".torrent")] = "B"
            extra[os.path.abspath(outfile)] = "O"
            argv = list(case.get("pre", [])) + [case.get("spelling", "create"), root] + argv_out + [
                "--meta-version", str(v), "--piece-length", str(case["P"]), "--prog", str(case.get("progress", 0))]
            if case.get("spelling") == "implicit":
                argv = list(case.get("pre", [])) + argv[len(case.get("pre", [])) + 1:]
            if case.get("align"):
                argv.append("--align")
        elif cmd == "recheck":
            argv = list(case.get("pre", [])) + [case.get("spelling", "recheck"), meta,
                                                root if case.get("path_mode", "root") == "root" else os.path.dirname(root)]
        elif cmd == "info":
            argv = list(case.get("pre", [])) + ["info", meta]
        elif cmd == "magnet":
            argv = list(case.get("pre", [])) + [case.get("spelling", "magnet"), meta]
            if case.get("mver"):
                argv += ["--meta-version", str(case["mver"])]
        elif cmd == "rename":
            target = os.path.join(work, "o", tree["name"] + ".torrent")
            cur = "zz.torrent"
            if case.get("case_twin") and tree["name"].swapcase() != tree["name"]:
                # the metafile's current name differs from the wanted one only in letter case (another file on a
                # case-sensitive filesystem)
                cur = tree["name"].swapcase() + ".torrent"
            os.rename(meta, os.path.join(work, "o", cur))
            meta = os.path.join(work, "o", cur)
            if case.get("target_exists"):
                with open(target, "wb") as fh:
                    fh.write(b"someone else's file")
                rec["target_existed"] = True
            extra[os.path.abspath(target)] = "N"
            if case.get("payload_beside"):      # the usual layout: the payload lies next to its metafile
                beside = os.path.join(work, "o", tree["name"])
                if os.path.isdir(root):
                    shutil.copytree(root, beside, symlinks=True)
                else:
                    shutil.copyfile(root, beside)
                extra[os.path.abspath(beside)] = "K"
            argv = ["rename", meta]
        role0 = _role_fn(meta, extra)

        def role(p):
            ap = os.path.abspath(p)
            if ap.startswith(os.path.abspath(root)):
                return "P:" + os.path.relpath(ap, root)
            return role0(ap)
        if cmd == "rename" and case.get("decoy_in_cwd"):
            os.makedirs(os.path.join(work, "else"), exist_ok=True)
            with open(os.path.join(work, "else", tree["name"] + ".torrent"), "wb") as fh:
                fh.write(b"unrelated file in the working directory")
        os.makedirs(os.path.join(work, "else"), exist_ok=True)
        if case.get("clutter"):
            # other people's files whose names DERIVE from the paths the command is given (editor back-ups, safety copies,
            # leftovers of other tools): nobody's scratch space
            stems = [meta, root] + ([outfile] if outfile else [])
            for st_ in stems:
                d_, b_ = os.path.dirname(st_), os.path.basename(st_)
                for nm_ in (b_ + ".tmp", b_ + ".bak", b_ + "~", "." + b_ + ".swp", b_ + ".part", b_ + ".lock",
                            os.path.splitext(b_)[0] + ".tmp", b_ + ".torrent.tmp"):
                    p_ = os.path.join(d_, nm_)
                    if not os.path.lexists(p_) and len(nm_) < 250:
                        with open(p_, "wb") as fh:
                            fh.write(b"keep: " + nm_.encode("utf-8", "surrogateescape"))
        before = snapshot(work)
        meta_bytes = b""
        if os.path.isfile(meta):
            with open(meta, "rb") as fh:
                meta_bytes = fh.read()
        cwd = os.getcwd()
        os.makedirs(os.path.join(work, "else"), exist_ok=True)
        if case.get("cwd_mode") == "elsewhere" and case.get("outform", "file") != "cwd":
            if cmd == "rename" and case.get("decoy_in_cwd"):
                with fstrace.suspended():
                    pass
            os.chdir(os.path.join(work, "else"))
        else:
            os.chdir(os.path.join(work, "o"))
        so, se = sys.stdout, sys.stderr
        import logging
        logging.disable(logging.NOTSET)        # the command's own logging is part of what it does (workers mute it)
        fstrace.start([sbx])
        try:
            from torrentfile.cli import execute
            execute(list(argv))
        except SystemExit as ex:
            if ex.code not in (0, None):
                rec["status"] = "exit:%s" % ex.code
        except Exception as ex:
            rec["status"] = "exc:" + type(ex).__name__
        finally:
            log = fstrace.stop()
            logging.disable(logging.INFO)
            sys.stdout, sys.stderr = so, se
            os.chdir(cwd)
        after = snapshot(work)
        base_role = role

        def role(p):          # noqa: F811  (a path that exists neither before nor after is transient)
            r = base_role(p)
            if r in ("O", "M", "N") or r.startswith("P:"):
                return r
            rel = os.path.relpath(os.path.abspath(p), work)
            if rel not in before and rel not in after:
                return "probe"
            return r
        rec["ops"] = [{"kind": e["kind"], "p": role(e["path"]), "p2": role(e["path2"]) if e["path2"] else "",
                       "d": "", "extra": e.get("extra", -1)} for e in log["log"]]
        rec["added"], rec["removed"], rec["changed"] = _diff(
            {os.path.join(work, k): v for k, v in before.items()},
            {os.path.join(work, k): v for k, v in after.items()}, role)
        if cmd == "rename" and not rec["target_existed"]:
            tgt = os.path.join(work, "o", tree["name"] + ".torrent")
            if os.path.isfile(tgt):
                with open(tgt, "rb") as fh:
                    rec["same_bytes"] = fh.read() == meta_bytes
            else:
                rec["same_bytes"] = False
        return rec
    finally:
        rm(sbx)
