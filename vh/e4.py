"""Engine E4 - rebuild: C13, C14, C19."""
from . import rebuild
from .core import BLOCK
from .e1 import SHAPES, alphabet, mk_tree
from .engine import Prop

B = BLOCK
DECOYS = ["decoy_all", "decoy_some", "decoy_head", "longer", "shorter"]


def pick(rng, P, shapes=("D2", "D3", "D4", "S1", "D2n", "DN", "DU", "D5", "DNFC", "DS", "DS", "DM", "DX")):
    A = [a for a in alphabet(P) if a <= 3 * P + B + 1]
    while True:
        sh = rng.choice(shapes)
        k = 1 if sh == "S1" else len(SHAPES[sh])
        sizes = tuple(rng.choice(A) for _ in range(k))
        if sum(sizes) > 0:
            return sh, sizes


def rebuild_universe(clauses, rng, limit=None):
    """The universe of MC_FindMatches.cfg (2 files of 0..4 bytes, piece length 2, one or two candidates
    per file out of five classes) as scenarios for the REAL rebuild."""
    import itertools
    classes = ["intact", "decoy_all", "decoy_some", "decoy_head", "longer"]
    lists = [[c] for c in classes] + [[a, b] for a in classes for b in classes]
    out = []
    for n in (1, 2):
        for sizes in itertools.product(range(5), repeat=n):
            if sum(sizes) == 0:
                continue
            for cs in itertools.product(lists, repeat=n):
                t = mk_tree("D1" if n == 1 else "D2", sizes)
                for fi, f in enumerate(t["files"]):
                    f["cands"] = [{"cls": c, "search": 0, "depth": 0} for c in cs[fi]]
                    f["dest_pre"] = "absent"
                out.append({"version": 1, "P": 2, "tree": t, "meta_src": "ref", "nsearch": 1, "unrelated": 0,
                            "clauses": list(clauses), "scaled": True})
    if limit and len(out) > limit:
        out = rng.sample(out, limit)
    return out


class RebuildProp(Prop):
    engine = "E4-rebuild"
    runner = staticmethod(rebuild.run_rebuild)
    trace = ("TraceRebuild.tla", "Trace_Rebuild.cfg")
    timeout = 300
    assumptions = [
        "candidate order is imposed by naming candidate directories and patching os.listdir to return sorted names",
        "candidate classes are constructed: intact = original bytes; decoy_all = unrelated bytes of the same size; "
        "decoy_some / decoy_head differ from the original in the last / first byte only",
        "mutations outside the sandbox are denied by the audit-hook guard and reported",
    ]

    def mc(self, tier):
        return [{"module": "MapPieces.tla", "cfg": "MC_MapPieces.cfg",
                 "what": "_map_pieces (fixed variant): piece -> file ranges equal the stream slices, all size vectors"},
                {"module": "MapPieces.tla", "cfg": "MC_MapPieces_5files.cfg", "tier": "thorough",
                 "what": "5 files, sizes 0..4"},
                {"module": "FindMatches.tla", "cfg": "MC_FindMatches_3files.cfg", "tier": "thorough", "timeout": 3000,
                 "what": "3 files, sizes 0..3, up to 2 candidates each of 5 classes: 1.4 M scenarios"},
                {"module": "MapPieces.tla", "cfg": "MC_MapPieces_live.cfg",
                 "what": "liveness: _map_pieces terminates for every size vector"},
                {"module": "FindMatches.tla", "cfg": "MC_FindMatches_live.cfg",
                 "what": "liveness: the candidate search terminates for every scenario"},
                {"module": "MapPieces.tla", "cfg": "MC_MapPieces_code.cfg", "expect": "fail",
                 "what": "_map_pieces at the pinned commit: file ending exactly on a piece boundary is used again"},
                {"module": "FindMatches.tla", "cfg": "MC_FindMatches.cfg",
                 "what": "candidate search / copy rule (fixed variant): Safe always; Complete when no partially matching decoy precedes the intact copy"},
                {"module": "FindMatches.tla", "cfg": "MC_FindMatches_code.cfg", "expect": "fail",
                 "what": "pinned commit: first same-size candidate ends the search"},
                {"module": "FindMatches.tla", "cfg": "MC_FindMatches_pads.cfg",
                 "what": "piece-aligned metafiles: padding entries (zeros, never searched / copied) among up to 3 entries"},
                {"module": "FindMatches.tla", "cfg": "MC_FindMatches_pads4.cfg", "tier": "thorough", "timeout": 3000,
                 "what": "padding entries among up to 4 entries: 2.1 M states"},
                {"module": "FindMatches.tla", "cfg": "MC_FindMatches_nopad.cfg", "expect": "fail",
                 "what": "before 4af3d68: padding entries looked up like files, pieces containing padding never verify"},
                {"module": "FindMatches.tla", "cfg": "MC_FindMatches_partial.cfg", "expect": "fail",
                 "what": "KNOWN FINDING in the model: a partially matching decoy enumerated before the intact copy is placed and kept"}]

    def corruptions(self, recs):
        import copy
        from .mutate import first
        out = []
        good = lambda r: r["status"] == "ok" and r["files"]
        if self.pid == "C13":
            for r in first(recs, lambda r: good(r) and all("intact" in f["cands"] for f in r["files"])):
                m = copy.deepcopy(r)
                m["files"][0]["after"] = "absent"
                out.append((m, "C13.complete"))
                m = copy.deepcopy(r)
                m["count"] = m["present_after"] + 1
                out.append((m, "C13.count"))
            for v in (1, 2):      # the implementation-model clause must notice a changed outcome, v1 and v2 rule alike
                for r in first(recs, lambda r, v=v: good(r) and r["version"] == v and "M13.impl" in r["clauses"] and r["runs"] == 1
                               and r["ntorrents"] == 1 and r["P"] in (2, 16384, 32768)
                               and all(f["dest_pre"] == "absent" and f["after"] == "intact" for f in r["files"])):
                    m = copy.deepcopy(r)
                    m["files"][-1]["after"] = "absent"
                    out.append((m, "M13.impl"))
        if self.pid == "C14":
            for r in first(recs, good):
                m = copy.deepcopy(r)
                m["sources_unchanged"] = False
                out.append((m, "C14.sources"))
                m = copy.deepcopy(r)
                m["files"][0]["length"] = max(1, m["files"][0]["length"])
                m["files"][0]["after"] = "cand:decoy_all"
                out.append((m, "C14.decoy"))
        if self.pid == "C19":
            for r in first(recs, lambda r: True):
                m = copy.deepcopy(r)
                m["outside_ops"] = [{"kind": "mkdir", "path": "61"}]
                out.append((m, "C19.inside"))
            # the path-resolution model must notice a place that was not touched / one more that was
            for r in first(recs, lambda r: r.get("op") == "pathres" and len(r["touched"]) >= 2):
                m = copy.deepcopy(r)
                m["touched"] = m["touched"][:-1]
                out.append((m, "M19.impl"))
            for r in first(recs, lambda r: r.get("op") == "pathres" and not r["touched"]):
                m = copy.deepcopy(r)
                m["touched"] = [["s", "out", "f"]]
                out.append((m, "M19.impl"))
            # the transaction model must notice a plain entry that is not in place / one that is, after the failure
            for r in first(recs, lambda r: r.get("txn") and len(r.get("placed", [])) >= 1 and "blocked" in r["txn"]):
                m = copy.deepcopy(r)
                m["placed"] = m["placed"][:-1]
                out.append((m, "M19.txn"))
            for r in first(recs, lambda r: r.get("txn") and "blocked" in r["txn"] and r["txn"][-1] == "plain"):
                m = copy.deepcopy(r)
                m["placed"] = m["placed"] + [len(m["txn"])]
                out.append((m, "M19.txn"))
        return out

    def scen(self, rng, P, v, tree_spec, cands_fn, dest_fn=None, **kw):
        sh, sizes = tree_spec
        t = mk_tree(sh, sizes, nv=rng.randrange(6) if rng.random() < 0.3 and not kw.get("dest_dot") else 0)
        for fi, f in enumerate(t["files"]):
            f["cands"] = cands_fn(fi, f)
            f["dest_pre"] = dest_fn(fi, f) if dest_fn else "absent"
        c = {"version": v, "P": P, "tree": t, "nsearch": kw.pop("nsearch", 1 + rng.randrange(2)),
             "unrelated": 2, "clauses": list(self.clauses)}
        r = rng.random()
        # (a v2-only single-file metafile without info.length is indistinguishable from a directory
        # holding one file of the same name; this tool reads it as the latter - not generated)
        if (r < 0.2 and not t.get("single")) or (r < 0.1 and v != 2):
            c["meta_src"] = "ref"           # metafile from the reference encoder, with keys this tool never writes
            c["extra_keys"] = True
        c["rel_paths"] = rng.random() < 0.25
        c["file_arg"] = rng.random() < 0.15
        c["nested_search"] = rng.random() < 0.15
        c["dir_named_like_file"] = rng.random() < 0.2
        if rng.random() < 0.2:
            for f in t["files"]:
                for cd in f["cands"]:
                    cd["under_named_dir"] = True
        if rng.random() < 0.2:
            for f in t["files"]:
                for cd in f["cands"]:
                    if cd["cls"] == "intact" and rng.random() < 0.5:
                        cd["as_symlink"] = True
        c["dest_spelling"] = rng.choice([None, None, None, "symlink", "dotdot"])
        c["search_spelling"] = rng.choice([None, None, None, "symlink", "dotdot"])
        c.update(kw)
        return c

    def nontrivial(self, case):
        t = case["tree"]
        return (case["version"], case["P"], t["name"], tuple(f["size"] for f in t["files"]),
                str([[f["size"] for f in t2["files"]] for t2 in case.get("more_trees", [])]),
                tuple(tuple(c["cls"] for c in f.get("cands", [])) for f in t["files"]),
                tuple(f.get("dest_pre") for f in t["files"]), case.get("repeat"), case.get("meta_name"), case.get("align"),
                tuple(tuple(f.get("meta_path", [])) for f in t["files"]))

    def sample(self, case, rec):
        t = case["tree"]
        return {"version": case["version"], "P": case["P"], "sizes": [f["size"] for f in t["files"]],
                "cands": [[c["cls"] for c in f.get("cands", [])] for f in t["files"]],
                "dest_pre": [f.get("dest_pre") for f in t["files"]],
                "after": [x["after"] for x in rec["files"]] if rec else None, "count": rec.get("count") if rec else None}

    def cand(self, rng, cls, **kw):
        d = {"cls": cls, "search": rng.randrange(2), "depth": rng.randrange(3)}
        d.update(kw)
        return d


class C13(RebuildProp):
    pid = "C13"
    clauses = ["C13.complete", "C13.count", "M13.impl"]
    design_ref = "DESIGN.md section 6 C13/C14/C19"
    level_text = ("TLC checks MapPieces.tla (the piece -> file-range map of _map_pieces equals the stream slices for all "
                  "size vectors incl. files ending exactly on a boundary and empty files; the pinned commit's map is a "
                  "must-fail variant) and FindMatches.tla (candidate search and copy rule). Conformance: rebuild scenarios "
                  "with an intact copy of every file among decoys (same size / wrong size, listed before or after the "
                  "intact copy), scattered over 1-2 search directories at depth 0-2, v1 / v2 / hybrid, are run through "
                  "the real Assembler (library and CLI); TLC validates that the destination verifies completely and that "
                  "the returned count does not exceed the files present.")
    rule = ("cases = (version, P, shape, sizes from A(P) incl. 0 and exact multiples, per-file candidate lists with the "
            "intact copy in every position among decoys, scattering); non-trivial = some file has a decoy or wrong-size "
            "candidate, or ends exactly on a piece boundary, or is empty; distinct by all of these")

    def cases(self, tier, rng):
        n = 5000 if tier == "thorough" else 260
        out = []
        for k in range(n):
            v = (1, 2, 3)[k % 3]
            P = (B, 2 * B)[k % 2]
            mode = k % 5

            def cands(fi, f, mode=mode):
                c = [self.cand(rng, "intact")]
                if mode == 1:       # wrong-size and dead decoys around the intact copy
                    c = [self.cand(rng, rng.choice(["longer", "shorter", "decoy_all"]))] + c + [self.cand(rng, "decoy_all")]
                elif mode == 2:     # intact copy listed last behind a same-size dead decoy
                    c = [self.cand(rng, "decoy_all"), self.cand(rng, "decoy_all")] + c
                elif mode == 3:     # partially matching decoys
                    c = [self.cand(rng, rng.choice(["decoy_some", "decoy_head"]))] + c
                elif mode == 4:
                    extra = [self.cand(rng, rng.choice(DECOYS)) for _ in range(rng.randrange(3))]
                    c = extra + c
                    rng.shuffle(c)
                return c
            out.append(self.scen(rng, P, v, pick(rng, P), cands, route="cli" if k % 7 == 0 else "lib"))
        # piece lengths of several MiB (what the automatic choice arrives at for payloads of a few GiB): a file's share of
        # a piece is then larger than any read buffer
        M = 2 ** 20
        for P in (2 * M, 4 * M):
            for spec in (("D3", (2 * M + M // 2 + 7, 700, M + M // 5 + 1)), ("S1", (2 * M + M // 2 + 3,)), ("D2", (5 * M + 11, 3))):
                for v in (1, 2, 3):
                    c = self.scen(rng, P, v, spec, lambda fi, f: [self.cand(rng, "decoy_all"), self.cand(rng, "intact")] if fi == 0 else [self.cand(rng, "intact")])
                    for k2 in ("dest_dot", "rel_paths"):
                        c.pop(k2, None)
                    c["clauses"] = [x for x in c["clauses"] if not x.startswith("M")]
                    out.append(c)
        # a one-piece v1 payload whose piece hash is well-formed UTF-8 (the metafile decoder returns it as text)
        for route in ("lib", "cli"):
            for src in ("own", "ref"):
                c = self.scen(rng, B, 1, ("S1", (14,)), lambda fi, f: [self.cand(rng, "intact")], route=route)
                c["tree"]["files"][0]["mode"] = "u8sha1"
                c["meta_src"] = src
                for k2 in ("dest_dot", "rel_paths", "dest_spelling", "search_spelling"):
                    c.pop(k2, None)
                out.append(c)
        # the destination given as "." / "./" (working directory), single-file and directory torrents
        for v in (1, 2, 3):
            for dot in (".", "./"):
                for tr in (("S1", (2 * B + 1,)), ("D2", (B + 5, 2 * B))):
                    out.append(self.scen(rng, B, v, tr, lambda fi, f: [self.cand(rng, "intact", search=0)],
                                         nsearch=1, dest_dot=dot, rel_paths=False))
        # two entries with the same file name and identical bytes, one copy in the search directory
        for v in (1, 2, 3):
            t = mk_tree("DD", (B + 7, B + 7, 3 * B), modes=["same", "same", "rand"])
            for fi, f in enumerate(t["files"]):
                f["cands"] = [dict(self.cand(rng, "intact", search=0), shared=(fi == 1))]
                f["dest_pre"] = "absent"
            out.append({"version": v, "P": B, "tree": t, "nsearch": 1, "unrelated": 1, "clauses": list(self.clauses)})
        # search directories whose names begin like the destination's ("dest" next to "dest_old", "dest.bak"), or
        # the other way round ("de")
        for v in (1, 2, 3):
            for snames in (["dest_old", "dest.bak"], ["de", "dest2"], ["dest-src"]):
                c = self.scen(rng, B, v, ("D3", (B + 5, 2 * B, 9)), lambda fi, f: [self.cand(rng, "decoy_all"), self.cand(rng, "intact")],
                              nsearch=len(snames), file_arg=False, nested_search=False, search_spelling=None, dest_spelling=None)
                c["search_names"] = snames
                out.append(c)
        # differently named files with identical bytes whose copies in the search directory are hard links of
        # one another (what jdupes -L / cp -l leave behind)
        for v in (1, 2, 3):
            for P in (B, 2 * B):
                t = {"name": "tTwins", "single": False,
                     "files": [{"path": ["intro.bin"], "size": P + 9, "mode": "same"}, {"path": ["mid.bin"], "size": 5},
                               {"path": ["sub", "outro.bin"], "size": P + 9, "mode": "same"}]}
                for f in t["files"]:
                    f["cands"] = [self.cand(rng, "intact", search=0)]
                    f["dest_pre"] = "absent"
                out.append({"version": v, "P": P, "tree": t, "nsearch": 1, "unrelated": 1, "clauses": list(self.clauses),
                            "hardlink_cands": True})
        # batches of two metafiles in one metafile directory; both torrents contain files with the
        # same names ("a", "b"), so each one's copies are same-named decoys for the other
        for k in range(60 if tier == "thorough" else 18):
            v = (1, 2, 3)[k % 3]
            P = (B, 2 * B)[k % 2]
            A = [a for a in alphabet(P) if 0 < a <= 3 * P + 1]
            s1 = (rng.choice(A), rng.choice(A))
            s2 = (s1[0], rng.choice(A)) if k % 2 else (rng.choice(A), s1[1])      # provoke equal sizes
            c = self.scen(rng, P, v, ("D2", s1), lambda fi, f: [self.cand(rng, "intact")])
            t2 = mk_tree("D2", s2, name="tBatch")
            for f in t2["files"]:
                f["cands"] = [self.cand(rng, "intact")]
                f["dest_pre"] = "absent"
            c["more_trees"] = [t2]
            out.append(c)
        # batches whose torrents are related: (0) a file common to two torrents (same name, same bytes)
        # of which the search directory holds ONE copy; (1) volumes of one release: same torrent name,
        # same file names and sizes, different bytes, different sub-directory; (2) three torrents
        for k in range(90 if tier == "thorough" else 24):
            v = (1, 2, 3)[k % 3]
            P = (B, 2 * B)[(k // 3) % 2]
            A = [a for a in alphabet(P) if 0 < a <= 3 * P + 1]
            kind = (k // 6) % 3
            sz = rng.choice(A)

            def custom(name, entries):
                return {"name": name, "single": False,
                        "files": [{"path": list(p), "size": s, "mode": m, "dest_pre": "absent",
                                   "cands": [dict(self.cand(rng, "intact"), shared=sh)]} for p, s, m, sh in entries]}
            if kind == 0:
                ts = [custom("tA", [(["a"], rng.choice(A), "rand", False), (["common.bin"], sz, "same", False)]),
                      custom("tB", [(["b"], rng.choice(A), "rand", False), (["sub", "common.bin"], sz, "same", True)])]
            elif kind == 1:
                ts = [custom("pack", [(["cd%d" % n, "track.bin"], sz, "rand", False),
                                      (["cd%d" % n, "cue.txt"], 40 + k, "rand", False)]) for n in (1, 2)]
            else:
                ts = [custom("t%s" % n, [(["a"], sz if n != "Y" else rng.choice(A), "rand", False),
                                         (["d", "b"], rng.choice(A), "rand", False)]) for n in "XYZ"]
            c = {"version": v, "P": P, "tree": ts[0], "more_trees": ts[1:], "nsearch": 1 + k % 2, "unrelated": 1,
                 "clauses": list(self.clauses), "meta_args": ("dir", "files", "both")[k % 3 if kind != 2 else (k // 3) % 3],
                 "route": "cli" if k % 5 == 0 else "lib", "odd_metas": k % 2 == 1}
            out.append(c)
        # batches that mix piece lengths and versions, with a file of identical bytes (same pieces root, its own
        # piece-layer entry in each metafile) under different names in both torrents
        for k in range(24 if tier == "thorough" else 9):
            v = (2, 3, 1)[k % 3]
            v2 = (3, 2, 2)[k % 3] if k % 2 else v
            P1, P2 = ((B, 2 * B), (2 * B, B), (B, 4 * B))[(k // 3) % 3]
            sz = (5 * B + 1, 8 * B, 9 * B + 7)[k % 3]

            def custom2(name, entries, P_, v_):
                return {"name": name, "single": False, "P": P_, "version": v_,
                        "files": [{"path": list(p), "size": s, "mode": m, "dest_pre": "absent",
                                   "cands": [self.cand(rng, "intact")]} for p, s, m in entries]}
            ts = [custom2("pack-a", [(["big.bin"], sz, "same"), (["a.txt"], 77 + k, "rand")], P1, v),
                  custom2("pack-b", [(["data", "huge.bin"], sz, "same"), (["b.txt"], 99 + k, "rand")], P2, v2)]
            out.append({"version": v, "P": P1, "tree": ts[0], "more_trees": ts[1:], "nsearch": 1 + k % 2, "unrelated": 1,
                        "clauses": [c for c in self.clauses if not c.startswith("M")], "meta_args": ("dir", "files")[k % 2],
                        "route": "cli" if k % 4 == 0 else "lib"})
        # piece-aligned v1 metafiles (padding entries in the file list): this tool's own --align output and
        # reference-encoded BEP 47 lists, with and without a padding entry after the last file
        for k in range(60 if tier == "thorough" else 18):
            P = (B, 2 * B)[k % 2]
            A = [a for a in alphabet(P) if a <= 3 * P + B + 1]
            sh = ("D2", "D3", "D4", "D2n")[k % 4]
            sizes = tuple(rng.choice(A) for _ in SHAPES[sh])
            if sum(sizes) == 0:
                sizes = (5,) + sizes[1:]
            c = self.scen(rng, P, 1, (sh, sizes), lambda fi, f: [self.cand(rng, "intact")] if k % 3 else
                          [self.cand(rng, "decoy_all"), self.cand(rng, "intact")], route="cli" if k % 5 == 0 else "lib")
            c["align"] = True
            c["meta_src"] = "ref" if k % 2 else "own"
            c["extra_keys"] = False
            c["trailing_pad"] = k % 4 == 1
            out.append(c)
        # files with long runs of zero bytes (disk images, preallocated files) at their end / start / middle, sizes on
        # 64 KiB multiples: what is written must still be the whole file
        K = 65536
        for v in (1, 2, 3):
            for mode in ("ztail", "zhead", "zmid", "zeros", "sparse"):
                for sh, sizes in (("D2", (3 * K, 2 * K)), ("S1", (4 * K,)), ("D2", (K, 5 * K + 7))):
                    c = self.scen(rng, (B, 4 * B)[v % 2], v, (sh, sizes), lambda fi, f: [self.cand(rng, "intact")], nsearch=1)
                    for f in c["tree"]["files"]:
                        f["mode"] = mode
                    out.append(c)
        # something in the destination is in the way of a copy (a regular file where the torrent has a directory): the run
        # may stop with the error, or go on - but it must not count files it could not place
        for v in (1, 2, 3):
            for sh, sizes in (("D2n", (B + 5, 2 * B)), ("D4", (B, 5, 2 * B + 1, 7)), ("D5", (B + 1, 5, 2 * B))):
                for route in ("lib", "cli"):
                    c = self.scen(rng, B, v, (sh, sizes), lambda fi, f: [self.cand(rng, "intact")], nsearch=1)
                    c.update(file_in_way=True, route=route, clauses=["C13.countsafe"], rel_paths=False, dest_dot=None,
                             dest_spelling=None)
                    out.append(c)
        # one Assembler object used for two jobs (the first output moved away in between): files that own all their
        # pieces (starting and ending on piece boundaries, single files) next to files that share pieces
        for v in (1, 2, 3):
            for sh, sizes in (("D3", (2 * B, B, B + 5)), ("S1", (3 * B,)), ("D2", (B, 2 * B)), ("D3", (5, 2 * B, 7))):
                c = self.scen(rng, B, v, (sh, sizes), lambda fi, f: [self.cand(rng, "intact")], nsearch=1, repeat=True)
                c.update(reuse_obj=True, route="lib", rel_paths=False, dest_dot=None)
                c["clauses"] = [x for x in c["clauses"] if not x.startswith("M")]
                out.append(c)
        # the model-checked universe of FindMatches replayed into the real rebuild (piece length 2)
        out += rebuild_universe(self.clauses, rng, None if tier == "thorough" else 1200)
        # systematic: files ending exactly on a boundary, empty files in every position
        for v in (1, 2, 3):
            for P in (B, 2 * B):
                for sizes in ((P, P), (P, 1), (2 * P, P + 1), (P - 1, 1, P), (0, P, 0), (P, 0, 1), (1, 0), (0, 0, P + 1),
                              (3 * P, 1, 2 * P), (P + 1, P - 1, 5)):
                    sh = {2: "D2", 3: "D3"}[len(sizes)]
                    out.append(self.scen(rng, P, v, (sh, sizes), lambda fi, f: [self.cand(rng, "intact", depth=fi % 2)], nsearch=1))
        return out

    def nontrivial(self, case):
        t = case["tree"]
        P = case["P"]
        if not any(len(f["cands"]) > 1 or f["size"] == 0 or f["size"] % P == 0 for f in t["files"]):
            return None
        return RebuildProp.nontrivial(self, case)

    def signature(self, case, rec, clause):
        # the known finding concerns partially matching decoys listed before the intact copy
        part = False
        if rec:
            for f in rec["files"]:
                cl = f["cands"]
                if "intact" in cl:
                    before = cl[:cl.index("intact")]
                    if any(x in ("decoy_some", "decoy_head") for x in before):
                        part = True
        return "%s/v%s/%s" % (clause, case["version"] if case else "?", "partial-decoy-first" if part else "plain")


class C14(RebuildProp):
    pid = "C14"
    clauses = ["C14.sources", "C14.fulllen", "C14.copy", "C14.decoy"]
    design_ref = "DESIGN.md section 6 C13/C14/C19"
    level_text = ("TLC checks on FindMatches.tla that no action writes outside the recorded destination path, alters a "
                  "full-length destination file or places a candidate none of whose bytes verify. Conformance: scenarios "
                  "with arbitrary candidate sets (possibly no intact copy), destinations that already hold correct, "
                  "wrong-but-full-length, shorter and unrelated files, and repeated rebuilds; TLC validates full "
                  "before/after snapshots: search directories and metafiles untouched, full-length destination files "
                  "unchanged, every written file a byte-identical copy of a candidate at its recorded path, no dead decoy.")
    rule = ("cases = (version, P, shape, sizes, candidate lists drawn from all classes, destination pre-state per file, "
            "repeat); non-trivial = some destination file pre-exists or some file has only decoys; distinct by all")

    def cases(self, tier, rng):
        n = 5000 if tier == "thorough" else 260
        out = []
        pres = ["absent", "correct", "wrong_full", "shorter", "unrelated", "shorter_dirty"]
        for k in range(n):
            v = (1, 2, 3)[k % 3]
            P = (B, 2 * B)[k % 2]

            def cands(fi, f):
                m = rng.randrange(4)
                return [self.cand(rng, rng.choice(["intact"] + DECOYS)) for _ in range(m)]
            out.append(self.scen(rng, P, v, pick(rng, P), cands, lambda fi, f: rng.choice(pres),
                                 repeat=(3 if k % 9 == 0 else True) if k % 3 == 0 else False,
                                 route="cli" if k % 7 == 0 else "lib"))
        # a file that starts exactly on a piece boundary and has only / first a dead decoy, while the
        # files before it are intact (so the piece that ends at the boundary verifies)
        for v in (1, 2, 3):
            for P in (B, 2 * B):
                for sizes in ((P, B + 7), (2 * P, P), (P - 1, 1, 2 * P + 3), (P, 5, P - 5, 100)):
                    for second in (["decoy_all"], ["decoy_all", "intact"], ["decoy_all", "decoy_all"]):
                        sh = {2: "D2", 3: "D3", 4: "D4"}[len(sizes)]
                        last = len(sizes) - 1

                        def cands(fi, f, last=last, second=second):
                            if fi == last:
                                return [self.cand(rng, c, search=0, depth=k) for k, c in enumerate(second)]
                            return [self.cand(rng, "intact", search=0)]
                        out.append(self.scen(rng, P, v, (sh, sizes), cands, nsearch=1))
        # one base name recorded twice with different lengths, the longer file = the shorter one plus appended data
        # (a growing log kept in two snapshots); the shorter one's own copy is missing or enumerated later
        for v in (1, 2, 3):
            for P in (B, 2 * B):
                for short_cands in ([], ["intact"]):
                    s1 = 2 * P + 100
                    t = {"name": "tLog", "single": False,
                         "files": [{"path": ["new", "data.log"], "size": s1 + P + 50, "ckey": "growing-log"},
                                   {"path": ["old", "data.log"], "size": s1, "ckey": "growing-log"},
                                   {"path": ["z.bin"], "size": 77}]}
                    for fi, f in enumerate(t["files"]):
                        f["dest_pre"] = "absent"
                        f["cands"] = [self.cand(rng, "intact", search=0, depth=0)]
                    t["files"][1]["cands"] = [self.cand(rng, c, search=1, depth=2) for c in short_cands]
                    out.append({"version": v, "P": P, "tree": t, "nsearch": 2, "unrelated": 1, "clauses": list(self.clauses)})
        # files of a few MiB whose destination holds the remains of an interrupted copy (clean prefix / torn tail)
        for v in (1, 2, 3):
            for pre0 in ("shorter", "shorter_dirty"):
                c = self.scen(rng, 16 * B, v, ("D2", (5 * 2 ** 19 + 3, 70000)), lambda fi, f: [self.cand(rng, "intact", search=0)],
                              lambda fi, f, pre0=pre0: pre0 if fi == 0 else "absent", nsearch=1)
                out.append(c)
        # piece-aligned v1 metafiles (padding entries): nothing may ever be written for a padding entry
        for k in range(60 if tier == "thorough" else 15):
            P = (B, 2 * B)[k % 2]
            A = [a for a in alphabet(P) if a <= 3 * P + B + 1]
            sh = ("D2", "D3", "D4")[k % 3]
            sizes = tuple(rng.choice(A) for _ in SHAPES[sh])
            if sum(sizes) == 0:
                sizes = (5,) + sizes[1:]
            c = self.scen(rng, P, 1, (sh, sizes), lambda fi, f: [self.cand(rng, rng.choice(["intact"] + DECOYS))
                                                                  for _ in range(rng.randrange(3))],
                          lambda fi, f: rng.choice(pres), repeat=k % 4 == 0)
            c.update(align=True, meta_src="ref" if k % 2 else "own", extra_keys=False, trailing_pad=k % 4 == 1)
            out.append(c)
        out += rebuild_universe(self.clauses, rng, None if tier == "thorough" else 1200)
        # two releases of one torrent (same name, same relative path, second file larger) rebuilt one
        # after the other into one destination: the later copy replaces the shorter earlier one and must
        # leave the earlier release's source file alone
        for v in (1, 2, 3):
            for s1, s2 in ((2 * B + 1, 4 * B + 5), (5, B + 5), (B, 2 * B)):
                c = self.scen(rng, B, v, ("D1", (s1,)), lambda fi, f: [self.cand(rng, "intact", search=0)], nsearch=1)
                t2 = mk_tree("D1", (s2,))
                t2["files"][0]["gen"] = 1                      # other bytes: a newer release
                t2["files"][0]["cands"] = [self.cand(rng, "intact", search=0)]
                t2["files"][0]["dest_pre"] = "absent"
                c["more_trees"] = [t2]
                c["same_name"] = True
                out.append(c)
        # a payload that has members named like scratch files (x.bin.part, x.bin.tmp, x.bin~ ...): they are complete in
        # the destination already, only x.bin is to be placed - and the other way round
        nT = len(SHAPES["DT"])
        for v in (1, 2, 3):
            for missing in (0, None):
                sizes = tuple(B + 7 + 3 * k for k in range(nT))
                c = self.scen(rng, B, v, ("DT", sizes),
                              lambda fi, f, missing=missing: [self.cand(rng, "intact", search=0)] if (fi == 0) == (missing == 0) else [],
                              lambda fi, f, missing=missing: "absent" if (fi == 0) == (missing == 0) else "correct", nsearch=1)
                out.append(c)
        # files with long runs of zero bytes (disk images, preallocated files) at their end / start / middle, sizes on
        # 64 KiB multiples: what is written must still be the whole file
        K = 65536
        for v in (1, 2, 3):
            for mode in ("ztail", "zhead", "zmid", "zeros", "sparse"):
                for sh, sizes in (("D2", (3 * K, 2 * K)), ("S1", (4 * K,)), ("D2", (K, 5 * K + 7))):
                    c = self.scen(rng, (B, 4 * B)[v % 2], v, (sh, sizes), lambda fi, f: [self.cand(rng, "intact")], nsearch=1)
                    for f in c["tree"]["files"]:
                        f["mode"] = mode
                    out.append(c)
        # search directories whose PATH begins like the destination's (dest next to dest_incoming / dest.old): they are
        # still search directories - nothing in them may be moved, changed or removed
        for v in (1, 2, 3):
            for snames in (["dest_incoming"], ["dest.old", "dest-2"], ["destination"]):
                c = self.scen(rng, B, v, ("D3", (B + 5, 2 * B, 9)), lambda fi, f: [self.cand(rng, "decoy_all"), self.cand(rng, "intact")],
                              nsearch=len(snames), file_arg=False, nested_search=False, search_spelling=None, dest_spelling=None,
                              repeat=v == 2)
                c["search_names"] = snames
                out.append(c)
        # two torrents whose names collide as FILE versus DIRECTORY: the single-file torrent's file is complete in the
        # destination; whatever happens to the directory torrent, that file stays
        for v in (1, 2, 3):
            for order in (0, 1):
                tf = mk_tree("S1", (B + 9,), name="album")
                tf["files"][0].update(cands=[self.cand(rng, "intact", search=0)], dest_pre="correct")
                td = mk_tree("D2", (B + 5, 2 * B), name="album")
                for f in td["files"]:
                    f.update(cands=[self.cand(rng, "intact", search=0)], dest_pre="absent")
                ts = [tf, td] if order == 0 else [td, tf]
                out.append({"version": v, "P": B, "tree": ts[0], "more_trees": ts[1:], "nsearch": 1, "unrelated": 1,
                            "clauses": ["C14.fulllen", "C14.sources"], "meta_args": "files", "route": ("lib", "cli")[order]})
        for v in (1, 2, 3):           # only dead decoys: nothing may be placed
            for sizes in ((B + 1, 2 * B), (5, 3 * B), (2 * B, 2 * B)):
                out.append(self.scen(rng, B, v, ("D2", sizes), lambda fi, f: [self.cand(rng, "decoy_all")], nsearch=1))
        return out

    def nontrivial(self, case):
        t = case["tree"]
        if not any(f.get("dest_pre") != "absent" or (f["cands"] and all(c["cls"] != "intact" for c in f["cands"])) for f in t["files"]):
            return None
        return RebuildProp.nontrivial(self, case)

    def signature(self, case, rec, clause):
        return "%s/v%s" % (clause, case["version"] if case else "?")


def txn_universe():
    """The universe of RebuildTxn.tla: every sequence of up to four entries of kinds plain / escape / blocked."""
    from . import core, tlaval
    from .core import Machinery
    r = core.run_tlc("RebuildTxn.tla", "Sim_RebuildTxn.cfg", workers=1, timeout=300)
    if r.error or r.violation:
        raise Machinery("RebuildTxn emission failed: %s" % (r.error or r.violation))
    out = sorted({tuple(es) for _, es in tlaval.find_tagged(r.out, "TXN")})
    if len(out) != 120:
        raise Machinery("RebuildTxn emitted %d sequences, 120 expected" % len(out))
    return out, r.cmd


def pathres_universe():
    """The universe of PathRes.tla (destination pre-states with symbolic links x metafile entries with hostile
    elements), emitted by TLC together with the model's own prediction."""
    from . import core, tlaval
    from .core import Machinery
    r = core.run_tlc("PathRes.tla", "Sim_PathRes.cfg", workers=1, timeout=900)
    if r.error or r.violation:
        raise Machinery("PathRes emission failed: %s" % (r.error or r.violation))
    seen, out = set(), []
    for _, w in tlaval.find_tagged(r.out, "PRWORLD"):
        key = repr(w)
        if key in seen:
            continue
        seen.add(key)
        out.append(w)
    return out, r.cmd


# the destination directory of every scenario is <sandbox>/dest
HOSTILE = ["..", ".", "@SBX@/abs", "a/../../b", "../" * 6 + "x", "@SBX@/abs/deep",
           "../dest_old", "../dest.bak/pkg", "../ghost/../dest/pkg", "pkg/../../dest-copy", "../../dest2",
           # separators of other systems: ordinary characters of a name here (they must stay that)
           "..\\..\\..\\up", "a\\..\\..\\..\\b", "..\\"]


class C19(RebuildProp):
    pid = "C19"
    clauses = ["C19.inside"]
    design_ref = "DESIGN.md section 6 C13/C14/C19"
    level_text = ("TLC checks PathRes.tla - POSIX path resolution over a small filesystem with symbolic links, os.path.join over "
                  "metafile elements that may embed separators, rebuild._destination and the directory chain + copy of "
                  "utils.copypath - for 'every place the kernel mutates lies inside the destination' over 17 820 (destination "
                  "pre-state, metafile entry) worlds; five wrong variants (pinned commit, first repair, lexical normalisation, "
                  "parent-only resolution, character-wise prefix) must fail. The same universe, with the model's prediction, is "
                  "replayed into the real rebuild (M19.impl: places changed on disk = places the model mutates). RebuildTxn.tla models one "
                  "rebuild as a sequence of plain / escaping / failing entries with clean-up variants (OutsideUntouched; the roll-back of every "
                  "recorded name and the unchecked pinned commit must fail); its 120 entry sequences are replayed too (M19.txn). Conformance: reference-encoded v1 / v2 / hybrid metafiles whose name or "
                  "path components are hostile ('..', '.', absolute, 'a/../../b', chains of '..'), with a matching "
                  "candidate present so that the copy is attempted, are rebuilt under the operation log + guard; TLC "
                  "validates that no mutating operation resolved outside the destination, nothing outside changed and "
                  "nothing was denied by the guard.")
    rule = ("cases = (version, single/dir, hostile value in the name or in each path position, candidate present) + "
            "destinations holding outward symbolic links + copies that cannot succeed into lonely destinations + worlds of "
            "PathRes.tla (quick: 700 sampled, thorough: all 51 030 world x version) + the 120 entry sequences of RebuildTxn.tla with somebody "
            "else's file at every escape target + destinations named like the torrent; non-trivial = every case")

    def cases(self, tier, rng):
        out = []
        for v in (1, 2, 3):
            for h in HOSTILE:
                # hostile directory component in a multi-file torrent
                for pos in (0, 1):
                    t = mk_tree("D2", (B + 5, 2 * B))
                    for fi, f in enumerate(t["files"]):
                        comps = ["victim%d.bin" % fi]
                        comps = [h] + comps if pos == 0 else ["sub", h] + comps
                        if "/" in h and v != 1 and False:
                            pass
                        f["meta_path"] = comps
                        f["cands"] = [{"cls": "intact", "search": 0, "depth": fi}]
                    out.append({"version": v, "P": B, "tree": t, "meta_src": "ref", "hostile": True, "nsearch": 1,
                                "unrelated": 1, "clauses": list(self.clauses),
                                "dest_spelling": (None, "symlink", "dotdot")[(len(out) // 2) % 3]})
                # hostile torrent name
                t = mk_tree("D2", (B + 5, 2 * B))
                for fi, f in enumerate(t["files"]):
                    f["meta_path"] = ["n%d.bin" % fi]
                    f["cands"] = [{"cls": "intact", "search": 0, "depth": 0}]
                out.append({"version": v, "P": B, "tree": t, "meta_src": "ref", "meta_name": h, "hostile": True,
                            "nsearch": 1, "unrelated": 1, "clauses": list(self.clauses)})
            # single-file torrents with hostile names that still have a usable last component
            for nm in ("../escaped.bin", "@SBX@/abs/abs.bin", "x/../../up.bin", "./plain.bin", "../dest2.bin",
                       "../ghost/../dest/in.bin"):
                t = mk_tree("S1", (2 * B + 1,))
                t["files"][0]["cands"] = [{"cls": "intact", "search": 0, "depth": 0}]
                out.append({"version": v, "P": B, "tree": t, "meta_src": "ref", "meta_name": nm, "hostile": True,
                            "nsearch": 1, "unrelated": 1, "clauses": list(self.clauses)})
        # the destination directory is NAMED like the torrent (rebuild -d ~/seeding/Some.Album for the torrent Some.Album):
        # entries that climb one level stay inside the directory that was given - or are refused
        for v in (1, 2, 3):
            for h in ("..", "a/../../b", "../dest_old", "x/../.."):
                for pos in (0, 1):
                    t = mk_tree("D2", (B + 5, 2 * B))
                    for fi, f in enumerate(t["files"]):
                        f["meta_path"] = ([h] if pos == 0 else ["sub", h]) + ["victim%d.bin" % fi]
                        f["cands"] = [{"cls": "intact", "search": 0, "depth": fi}]
                    out.append({"version": v, "P": B, "tree": t, "meta_src": "ref", "hostile": True, "nsearch": 1, "unrelated": 1,
                                "dest_is_name": True, "victims": pos == 1, "clauses": list(self.clauses),
                                "route": ("lib", "cli")[(len(out)) % 2]})
        # zero-length entries with hostile paths: after the last byte of a whole number of pieces, in a
        # torrent of empty files only, and next to a file whose candidate is missing (piece cannot verify)
        for v in (1, 2, 3):
            for h in ("..", "@SBX@/abs", "a/../../b", "../dest_old"):
                for sizes, missing in (((B, 0), None), ((0, 0), None), ((B + 5, 0, 2 * B), 0), ((2 * B, 0), None)):
                    sh = {2: "D2", 3: "D3"}[len(sizes)]
                    t = mk_tree(sh, sizes)
                    for fi, f in enumerate(t["files"]):
                        f["meta_path"] = ([h] if f["size"] == 0 else []) + ["e%d.bin" % fi]
                        f["cands"] = [] if fi == missing else [{"cls": "intact", "search": 0, "depth": 0}]
                    out.append({"version": v, "P": B, "tree": t, "meta_src": "ref", "hostile": True, "nsearch": 1,
                                "unrelated": 1, "clauses": list(self.clauses)})
        # values of unexpected types where names, paths and lengths are expected: rebuild may refuse or fail,
        # it must not touch anything outside the destination
        for v in (1, 2, 3):
            for k in range(12):
                t = mk_tree("D2", (B + 5, 2 * B))
                for fi, f in enumerate(t["files"]):
                    f["cands"] = [{"cls": "intact", "search": 0, "depth": 0}]
                out.append({"version": v, "P": B, "tree": t, "meta_src": "ref", "hostile": True, "type_hostile": k,
                            "nsearch": 1, "unrelated": 1, "clauses": list(self.clauses)})
        # benign metafiles, hostile DESTINATION: symbolic links that already exist inside it and lead outside - at the
        # position of a file (dangling / to a smaller file), of a directory on the way, of the top directory
        for v in (1, 2, 3):
            for kind in ("dangling", "small", "dir", "top"):
                for sh, sizes in (("D2n", (B + 5, 2 * B)), ("D2", (B + 5, 2 * B)), ("S1", (2 * B + 1,))):
                    if sh == "S1" and kind in ("dir", "top"):
                        continue
                    t = mk_tree(sh, sizes)
                    for fi, f in enumerate(t["files"]):
                        f["cands"] = [{"cls": "intact", "search": 0, "depth": fi}]
                    links = [{"file": fi, "kind": kind} for fi in range(len(sizes))] if kind in ("dangling", "small") else [{"file": 0, "kind": kind}]
                    out.append({"version": v, "P": B, "tree": t, "meta_src": ("ref", "own")[len(out) % 2], "hostile": True,
                                "dest_links": links, "nsearch": 1, "unrelated": 1, "clauses": list(self.clauses),
                                "route": ("lib", "cli")[(len(out) // 2) % 2]})
        # a copy that cannot succeed (a path element longer than the filesystem allows, a file where a directory is
        # wanted) into a destination that lies below otherwise empty directories / does not exist yet: whatever
        # clean-up follows must stop at the destination
        for v in (1, 2, 3):
            for kind in ("toolong", "file_in_way"):
                for dest_absent in (False, True):
                    if kind == "file_in_way" and dest_absent:
                        continue
                    t = mk_tree("D2", (B + 5, 2 * B))
                    for fi, f in enumerate(t["files"]):
                        f["meta_path"] = (["L" * 300] if kind == "toolong" else ["sub"]) + ["victim%d.bin" % fi]
                        f["cands"] = [{"cls": "intact", "search": 0, "depth": fi}]
                    out.append({"version": v, "P": B, "tree": t, "meta_src": "ref", "hostile": True, "nsearch": 1, "unrelated": 1,
                                "lonely_dest": True, "dest_absent": dest_absent, "file_in_way": kind == "file_in_way",
                                "clauses": list(self.clauses), "route": ("lib", "cli")[len(out) % 2]})
        # an escaping entry FOLLOWED by a copy that fails (one entry is a file, the next one lies below it): whatever
        # error handling / roll-back runs must not reach the place the refused entry points to - where a file of
        # somebody else already sits (v1 lists only: a v2 file tree cannot hold a name twice)
        for h in HOSTILE + ["../..", "../../.."]:
            for order in (0, 1):
                for victims in (True, False):
                    t = mk_tree("D3", (B, B, B))
                    mps = [[h, "notes.txt"], ["data"], ["data", "inner.bin"]]
                    if order:
                        mps = [mps[1], mps[2], mps[0]]
                    for fi, f in enumerate(t["files"]):
                        f["meta_path"] = mps[fi]
                        f["cands"] = [{"cls": "intact", "search": 0, "depth": fi % 2}]
                    out.append({"version": 1, "P": B, "tree": t, "meta_src": "ref", "hostile": True, "nsearch": 1,
                                "unrelated": 1, "victims": victims, "clauses": list(self.clauses),
                                "route": ("lib", "cli")[len(out) % 2]})
        # the plain hostile scenarios again with somebody else's file already present at the escape target
        extra = []
        for c in out:
            if c.get("hostile") and not c.get("dest_links") and "victims" not in c and len(extra) < 400 and len(extra) % 1 == 0:
                import copy
                extra.append(dict(copy.deepcopy(c), victims=True))
        out += extra[::2] if tier != "thorough" else extra
        out += self.txn_cases(tier, rng)
        out += self.pathres_cases(tier, rng)
        # benign controls: ordinary names must keep working (copy happens inside the destination)
        for v in (1, 2, 3):
            t = mk_tree("D2", (B + 5, 2 * B))
            for fi, f in enumerate(t["files"]):
                f["cands"] = [{"cls": "intact", "search": 0, "depth": 0}]
            out.append({"version": v, "P": B, "tree": t, "meta_src": "ref", "nsearch": 1, "unrelated": 1,
                        "clauses": list(self.clauses)})
        return out

    def mc(self, tier):
        bad = {"nocheck": "pinned commit: join and copy, no containment test",
               "checkonly": "2ccdc01: tested on the resolved path, unresolved spelling copied ('../ghost/../dest/x' creates ghost)",
               "normpath": "lexical normalisation only: a symbolic link inside the destination leads out",
               "lastcomp": "only the parent directory resolved (seed R12-C19): a link at the file position leads out",
               "charprefix": "character-wise prefix test (seed C19): dest_old passes for dest"}
        return RebuildProp.mc(self, tier) + [
            {"module": "PathRes.tla", "cfg": "MC_PathRes.cfg",
             "what": "path resolution with symbolic links + _destination + copypath (fixed): every mkdir and the write "
                     "resolve inside the destination for 17 820 (destination pre-state, metafile entry) worlds"}] + [
            {"module": "PathRes.tla", "cfg": "MC_PathRes_%s.cfg" % v, "expect": "fail", "workers": 2, "what": w}
            for v, w in bad.items()] + [
            {"module": "RebuildTxn.tla", "cfg": "MC_RebuildTxn.cfg", "workers": 2, "coverage": True, "coverage_exempt": ["RebuildTxn!Rollback"],
             "what": "one rebuild as a sequence of plain / escaping / failing entries (fixed: the error propagates): nothing "
                     "outside the destination is touched; what stays inside is what was listed before the failure"},
            {"module": "RebuildTxn.tla", "cfg": "MC_RebuildTxn_rollback.cfg", "workers": 2, "coverage": True,
             "what": "a clean-up that removes validated names only is safe as well (and leaves nothing behind)"},
            {"module": "RebuildTxn.tla", "cfg": "MC_RebuildTxn_live.cfg", "workers": 2, "what": "every run ends (done or failed)"},
            {"module": "RebuildTxn.tla", "cfg": "MC_RebuildTxn_discard.cfg", "expect": "fail", "workers": 2,
             "what": "seed R22-C19: clean-up of every RECORDED name reaches the file an escaping entry points to"},
            {"module": "RebuildTxn.tla", "cfg": "MC_RebuildTxn_nocheck.cfg", "expect": "fail", "workers": 2,
             "what": "no destination check (pinned commit): escaping entries are written through"}]

    def txn_cases(self, tier, rng):
        """RebuildTxn.tla's universe replayed into the real rebuild: v1 metafiles whose entries are, in listed order, plain
        names, names that escape (somebody else's file sits where they point), names whose copy must fail (listed below
        an entry that is a file).  One piece per entry."""
        seqs, cmd = txn_universe()
        esc = (["..", ".."], ["..", "..", "..", "lone-x"], ["@SBX@/abs"], ["a", "..", "..", ".."])
        cases = []
        for n, es in enumerate(seqs):
            files, roles = [], []
            for i, k in enumerate(es, 1):
                if k == "plain":
                    files.append((["p%d.bin" % i], "plain", i))
                elif k == "escape":
                    files.append((esc[(n + i) % len(esc)] + ["v%d.txt" % i], "escape", i))
                else:
                    files.append((["blk%d" % i], "blocker", i))
                    files.append((["blk%d" % i, "inner.bin"], "blocked", i))
            t = {"name": "txn", "single": False, "files": []}
            for fi, (mp, role, i) in enumerate(files):
                t["files"].append({"path": ["t%d.bin" % fi], "meta_path": mp, "size": B, "txn_role": role, "txn_entry": i,
                                   "cands": [{"cls": "intact", "search": 0, "depth": fi % 2}]})
            cases.append({"version": 1, "P": B, "tree": t, "meta_src": "ref", "hostile": True, "nsearch": 1, "unrelated": 1,
                          "victims": True, "txn": list(es), "clauses": ["C19.inside", "M19.txn"],
                          "route": ("lib", "cli")[n % 2]})
        self._txn = {"sequences": len(seqs), "cases_run": len(cases), "cmd": cmd, "complete": True}
        return cases

    def pathres_cases(self, tier, rng):
        """PathRes.tla's universe replayed into the real rebuild (quick: a stratified seeded sample)."""
        worlds, cmd = pathres_universe()
        norm = lambda x: sorted(list(p) for p in x)
        cases = []
        for n, w in enumerate(worlds):
            world = {"dirs": norm(w["dirs"]), "files": norm(w["files"]), "links": sorted([list(l[0]), list(l[1])] for l in w["links"]),
                     "dest": list(w["dest"]), "entry": [{"abs": bool(e["abs"]), "comps": list(e["comps"])} for e in w["entry"]]}
            for v in (1, 2, 3):
                if v != 1 and any(e["comps"] == [""] for e in world["entry"][1:]):
                    continue            # the empty key is the leaf marker of a file tree, it cannot name a directory
                cases.append({"op": "pathres", "world": world, "version": v, "P": B, "hostile": True,
                              "model": {"accepted": bool(w["accepted"]), "nmuts": len(w["muts"])},
                              "clauses": ["C19.inside", "M19.impl"]})
        total = len(cases)
        if tier != "thorough":
            # stratified: every (links of the world, first two elements, version) class once, then cut
            key = lambda c: (repr(c["world"]["links"]), repr(c["world"]["entry"][:2]), c["version"])
            byk = {}
            for c in cases:
                byk.setdefault(key(c), []).append(c)
            pick = [rng.choice(v) for _, v in sorted(byk.items())]
            rng.shuffle(pick)
            cases = pick[:700]
        self._pathres = {"worlds": len(worlds), "cases_total": total, "cases_run": len(cases), "cmd": cmd,
                         "complete": tier == "thorough"}
        return cases

    def extra_coverage(self, tier, cases, recs):
        return {"pathres_universe_replay": getattr(self, "_pathres", None),
                "rebuildtxn_universe_replay": getattr(self, "_txn", None)}

    def nontrivial(self, case):
        if case.get("op") == "pathres":
            return ("pathres", repr(case["world"]), case["version"])
        return RebuildProp.nontrivial(self, case)

    def sample(self, case, rec):
        if case.get("op") == "pathres":
            return {"pathres_world": case["world"], "version": case["version"], "model": case["model"],
                    "touched": rec.get("touched") if rec else None, "status": rec.get("status") if rec else None}
        return RebuildProp.sample(self, case, rec)

    def signature(self, case, rec, clause):
        if case and case.get("op") == "pathres":
            return "%s/world/v%s" % (clause, case["version"])
        return "%s/v%s" % (clause, case["version"] if case else "?")


PROPS = {"C13": C13, "C14": C14, "C19": C19}
