"""Driver for C12: piece-length arguments through the normaliser, the library, the CLI and the
configuration file; automatic choice."""
import os
import re

from . import alpha
from .core import bdecode_strict, new_sandbox, rm


def bits(n):
    n = abs(int(n))
    out = []
    while n:
        out.append(n & 1)
        n >>= 1
    return out


def describe(x):
    """Abstract the argument: what integer (if any) it denotes, as sign + binary digits."""
    if x["kind"] == "int":
        v = int(x["value"])
        return {"denotes": True, "plain": True, "sign": -1 if v < 0 else 1, "bits": bits(v), "kind": "int"}
    t = x["text"]
    if re.fullmatch(r"[0-9]+", t):
        return {"denotes": True, "plain": True, "sign": 1, "bits": bits(int(t)), "kind": "str"}
    # numeric in the Unicode sense (e.g. Arabic-Indic digits) - denotes an integer, not "plain"
    try:
        if t.isnumeric() and t.isdecimal():
            return {"denotes": True, "plain": False, "sign": 1, "bits": bits(int(t)), "kind": "str"}
    except ValueError:
        pass
    return {"denotes": False, "plain": False, "sign": 1, "bits": [], "kind": "str"}


def arg(x):
    return int(x["value"]) if x["kind"] == "int" else x["text"]


def run_plen(case):
    if case["op"] == "auto":
        return run_auto(case)
    if case["op"] == "autocreate":
        return run_autocreate(case)
    sbx = new_sandbox("pl")
    try:
        x, via = case["x"], case["via"]
        rec = {"id": case["id"], "op": "norm", "clauses": case["clauses"], "x": describe(x), "via": via,
               "status": "accept", "result": [], "created": False, "recorded": [], "metafile_written": False,
               "size": []}
        from torrentfile.utils import PieceLengthValueError
        out = os.path.join(sbx, "m.torrent")
        try:
            if via == "fn":
                from torrentfile.utils import normalize_piece_length
                rec["result"] = bits(normalize_piece_length(arg(x)))
            else:
                tree = {"name": "pl.bin", "single": True, "files": [{"path": [], "size": 20000}]}
                if case.get("payload_size"):      # a (sparse) payload of many thousand pieces: the length given is the length used
                    root = os.path.join(sbx, "p", "pl.bin")
                    _sparse(root, case["payload_size"])
                else:
                    root = alpha.materialize(tree, os.path.join(sbx, "p"))
                if via == "lib":
                    from torrentfile.torrent import TorrentFile, TorrentAssembler
                    cls = TorrentFile if case.get("version", 1) == 1 else TorrentAssembler
                    t = cls(path=root, piece_length=arg(x), outfile=out, progress=0,
                            meta_version=str(case.get("version", 1)))
                    t.write()
                elif via == "cli":
                    from torrentfile.cli import execute
                    execute(["create", root, "-o", out, "--prog", "0", "--piece-length", str(arg(x)),
                             "--meta-version", str(case.get("version", 1))])
                elif via == "interactive":
                    # the interactive front end: answers in the order the dialog asks for them
                    answers = iter([str(arg(x)), "", "", "", "", "", "n", root, out, str(case.get("version", 1))])
                    import builtins
                    real_input = builtins.input
                    builtins.input = lambda *a: next(answers)
                    try:
                        from torrentfile.interactive import InteractiveCreator
                        InteractiveCreator()
                    finally:
                        builtins.input = real_input
                else:   # configuration file
                    ini = os.path.join(sbx, "torrentfile.ini")
                    with open(ini, "w", encoding="utf-8") as fh:
                        fh.write("[config]\npiece-length = %s\n" % arg(x))
                    from torrentfile.cli import execute
                    execute(["create", root, "-o", out, "--prog", "0", "--config", "--config-path", ini,
                             "--meta-version", str(case.get("version", 1))])
                if os.path.isfile(out):
                    with open(out, "rb") as fh:
                        raw = fh.read()
                    root_node, _, _ = bdecode_strict(raw)
                    pl = root_node.get(b"info").get(b"piece length")
                    rec["created"] = True
                    rec["metafile_written"] = True
                    rec["recorded"] = bits(pl.val)
                    rec["result"] = rec["recorded"]
                else:
                    rec["status"] = "nofile"
        except PieceLengthValueError:
            rec["status"] = "plve"
        except SystemExit as ex:
            rec["status"] = "exit:%s" % ex.code
        except Exception as ex:
            rec["status"] = "exc:" + type(ex).__name__
        if rec["status"] != "accept":
            rec["metafile_written"] = os.path.isfile(out)
        return rec
    finally:
        rm(sbx)


def run_auto(case):
    from torrentfile.utils import get_piece_length
    size = int(case["size"])
    rec = {"id": case["id"], "op": "auto", "clauses": case["clauses"], "size": bits(size), "status": "ok",
           "result": [], "x": {"denotes": False, "plain": False, "sign": 1, "bits": [], "kind": "none"},
           "via": "fn", "created": False, "recorded": [], "metafile_written": False}
    try:
        rec["result"] = bits(get_piece_length(size))
    except Exception as ex:
        rec["status"] = "exc:" + type(ex).__name__
    return rec


def _sparse(path, size):
    os.makedirs(os.path.dirname(path), exist_ok=True)
    with open(path, "wb") as fh:
        fh.truncate(size)


def run_autocreate(case):
    """The automatic choice as a user meets it: create WITHOUT a piece length from a real payload of
    the given total size (sparse files), in several layouts; judged in the same ascending chain as
    the function-level records.  size = the total the created metafile itself declares."""
    size = int(case["size"])
    sbx = new_sandbox("pa")
    rec = {"id": case["id"], "op": "auto", "clauses": case["clauses"], "size": bits(size), "status": "ok",
           "result": [], "x": {"denotes": False, "plain": False, "sign": 1, "bits": [], "kind": "none"},
           "via": "create:" + case["layout"], "created": False, "recorded": [], "metafile_written": False}
    try:
        lay = case["layout"]
        root = os.path.join(sbx, "p", "auto")
        small = min(size, 3000)
        if lay == "single":
            root = os.path.join(sbx, "p", "auto.bin")
            _sparse(root, size)
        elif lay == "dir":
            _sparse(os.path.join(root, "a"), size - small)
            _sparse(os.path.join(root, "d", "b"), small // 3)
            _sparse(os.path.join(root, "d", "e", "c"), small - small // 3)
        elif lay == "symdir":        # most of the payload sits behind a symbolic link to a directory
            _sparse(os.path.join(root, "a"), small)
            _sparse(os.path.join(sbx, "elsewhere", "big"), size - small)
            os.symlink(os.path.join(sbx, "elsewhere"), os.path.join(root, "sub"))
        elif lay == "symfile":       # ... behind a symbolic link to a file
            _sparse(os.path.join(root, "a"), small)
            _sparse(os.path.join(sbx, "elsewhere", "big"), size - small)
            os.symlink(os.path.join(sbx, "elsewhere", "big"), os.path.join(root, "big"))
        elif lay == "many":          # equal files
            n = 7
            for k in range(n):
                _sparse(os.path.join(root, "f%d" % k), size // n + (1 if k < size % n else 0))
        elif lay == "crowd":         # one big file among thousands of tiny ones (the choice depends on the total alone)
            n = 5000
            for k in range(n):
                _sparse(os.path.join(root, "tiny", "%02d" % (k % 50), "t%04d" % k), 1 if k < min(size, n // 2) else 0)
            _sparse(os.path.join(root, "big.img"), size - min(size, n // 2))
        out = os.path.join(sbx, "m.torrent")
        v = case.get("version", 1)
        try:
            if case.get("via") == "cli":
                from torrentfile.cli import execute
                execute(["create", root, "-o", out, "--prog", "0", "--meta-version", str(v)])
            else:
                from torrentfile.torrent import TorrentFile, TorrentAssembler
                cls = TorrentFile if v == 1 else TorrentAssembler
                cls(path=root, outfile=out, progress=0, meta_version=str(v)).write()
            with open(out, "rb") as fh:
                node, _, _ = bdecode_strict(fh.read())
            info = node.get(b"info")
            rec["result"] = bits(info.get(b"piece length").val)
            m = alpha.alpha_meta(open(out, "rb").read(), None, want_tables=False)
            declared = None
            if info.get(b"files") is not None:
                declared = sum(e.get(b"length").val for e in info.get(b"files").val if e.get(b"attr") is None)
            elif info.get(b"length") is not None:
                declared = info.get(b"length").val
            else:
                def walk(n):
                    tot = 0
                    for k, c in n.val:
                        tot += c.get(b"length").val if k.val == b"" else walk(c)
                    return tot
                declared = walk(info.get(b"file tree"))
            rec["size"] = bits(declared)
            rec["declared_matches"] = declared == size
            rec["created"] = rec["metafile_written"] = True
        except SystemExit as ex:
            rec["status"] = "exit:%s" % ex.code
        except Exception as ex:
            rec["status"] = "exc:" + type(ex).__name__
        return rec
    finally:
        rm(sbx)
