"""Driver for recheck (C04, C05, C16): build payload + metafile, damage the payload, run the real
Checker through its public API, record the verdict stream and the reported percentage."""
import os

from . import alpha, refenc
from .core import bdecode_strict, content, hexs, new_sandbox, rm, write_file
from .create import create_meta


def tree_files(tree):
    """[(components, bytes)] of a tree description."""
    out = []
    for f in tree["files"]:
        out.append((list(f["path"]), content(alpha.tree_key(tree, f), f["size"], f.get("gen", 0),
                                             mode=f.get("mode", "rand"))))
    return out


def make_metafile(case, root, out):
    """Write the metafile for the (undamaged) payload; returns status."""
    src, tree, P, v = case["meta_src"], case["tree"], case["P"], case["version"]
    if src == "own":
        creator = "TorrentFile" if v == 1 else "TorrentAssembler"
        return create_meta({"creator": creator, "version": v, "P": P}, root, out)
    files = tree_files(tree)
    kw = {}
    if src == "ref_unsorted":
        kw["order"] = list(range(len(files)))[::-1]
    elif src == "ref_bep47":
        kw["pads"] = "bep47"
        kw["trailing_pad"] = bool(case.get("trailing_pad"))
    elif src == "ref_trailing":
        kw["trailing_pad"] = True
    if case.get("extra_keys"):      # valid keys this tool never writes / optional ones in other forms
        kw["extra_info"] = {"x-unknown": [1, "a", {"k": 2}], "source": "elsewhere", "private": 0}
        kw["extra_top"] = {"comment": "top-level comment", "zzz": 2 ** 40, "url-list": "http://w.example/f",
                           "nodes": [["n.example", 6881]], "created by": "other tool"}
        kw["attrs"] = True          # executable / hidden flags on regular files
    raw = refenc.build(tree["name"], files, P, v, single=bool(tree.get("single")), **kw)
    write_file(out, raw)
    return "ok"


def recorded_view(raw, version, single=False):
    """Recorded files as the checker must see them: v1 -> info.files (incl. padding entries) or
    the single file; v2 / hybrid -> file-tree leaves in written order.  [(components, length, kind)]"""
    root, _, _ = bdecode_strict(raw)
    info = root.get(b"info")
    out = []
    if version == 1:
        files = info.get(b"files")
        if files is None:
            return [([], info.get(b"length").val, "f")]
        for e in files.val:
            attr = e.get(b"attr")
            comps = [c.val.decode() for c in e.get(b"path").val]
            out.append((comps, e.get(b"length").val, "p" if attr is not None and b"p" in attr.val else "f"))
        return out
    leaves = []
    alpha._walk_tree(info.get(b"file tree"), [], leaves)
    for comps, leaf in leaves:
        comps = [c.decode() for c in comps]
        out.append((comps if not single else [], leaf.get(b"length").val, "f"))
    return out


def apply_damage(root, single, view, damage, tree, P=16384):
    """Apply the damage set (file indexes refer to tree["files"]; they are mapped to the recorded
    view by path); returns per-recorded-file disk state."""
    state = []
    index = {}
    for vi, (comps, length, kind) in enumerate(view):
        if kind == "f":
            index.setdefault(tuple(comps), vi)
    for comps, length, kind in view:
        p = root if (single or not comps) else os.path.join(root, *comps)
        state.append({"path": p, "present": kind == "f", "len": length if kind == "f" else 0, "flips": []})
    # payload members that are aliases of one another (symbolic links): the damage done through one name
    # shows under the others too - the state of every entry is then OBSERVED after the damage
    orig = None
    if tree.get("symlinks") and damage:
        orig = []
        for s in state:
            if s["present"]:
                with open(s["path"], "rb") as fh:
                    orig.append(fh.read())
            else:
                orig.append(b"")
    for d in damage:
        key = () if single else tuple(tree["files"][d["file"]]["path"])
        s = state[index[key]]
        if not s["present"]:
            continue
        if d["kind"] == "rmdir" and not single and len(key) > 1:
            import shutil
            shutil.rmtree(os.path.join(root, key[0]))
            for s2 in state:            # every entry below that directory is gone with it
                if s2["present"] and not os.path.lexists(s2["path"]):
                    s2["present"], s2["len"], s2["flips"] = False, 0, []
        elif d["kind"] == "dangling":          # the file replaced by a symbolic link that leads nowhere
            os.remove(s["path"])
            os.symlink(os.path.join(os.path.dirname(s["path"]), "no-such-target"), s["path"])
            s["present"], s["len"], s["flips"] = False, 0, []
        elif d["kind"] in ("wrong", "linkto"):
            if d["kind"] == "linkto":
                # the member becomes a HARD LINK of another member (same length, every byte different by construction:
                # the other member's content is this one's translated) - what a de-duplicating tool gone wrong leaves
                other = state[index[tuple(tree["files"][d["arg"]]["path"])]]
                os.remove(s["path"])
                os.link(other["path"], s["path"])
            else:                              # same name, same length, EVERY byte different (another file's content)
                with open(s["path"], "rb") as fh:
                    b = fh.read()
                table = bytes(((x - 1 + 97) % 255) + 1 if x else 7 for x in range(256))
                with open(s["path"], "wb") as fh:
                    fh.write(b.translate(table))
            # named by one changed byte per piece that overlaps the file: the first byte of every overlap, for the v1
            # stream pieces and for file-local (v2) pieces alike
            vi = index[key]
            start = sum(ln for _, ln, _ in view[:vi])
            n = s["len"]
            offs = {0} | {o for o in range(P - start % P, n, P)} | set(range(0, n, P))
            s["flips"] = sorted(o for o in offs if 0 <= o < n)
        elif d["kind"] in ("remove", "rmdir"):
            os.remove(s["path"])
            s["present"], s["len"], s["flips"] = False, 0, []
        elif d["kind"] == "trunc":
            n = min(d["arg"], s["len"])
            with open(s["path"], "r+b") as fh:
                fh.truncate(n)
            s["len"] = n
            s["flips"] = [o for o in s["flips"] if o < n]
        elif d["kind"] == "flip":
            o = d["arg"]
            if o < s["len"] and o not in s["flips"]:
                with open(s["path"], "r+b") as fh:
                    fh.seek(o)
                    b = fh.read(1)
                    fh.seek(o)
                    fh.write(bytes([b[0] ^ 0xFF]))     # 1..255 -> never the original, may be 0
                s["flips"].append(o)
    if orig is not None:
        for s, (comps, length, kind), ob in zip(state, view, orig):
            if kind != "f":
                continue
            if not os.path.exists(s["path"]):
                s["present"], s["len"], s["flips"] = False, 0, []
                continue
            with open(s["path"], "rb") as fh:
                b = fh.read()
            n = min(len(b), length)
            s["present"], s["len"] = True, n
            s["flips"] = [] if b[:n] == ob[:n] else [o for o in range(n) if b[o] != ob[o]]
    return [{"present": s["present"], "len": s["len"], "flips": sorted(s["flips"])} for s in state]


def run_proto(case):
    """One behaviour of CheckerProto.tla replayed into ONE real Checker object: generators opened, advanced piece
    by piece, given up; results() asked; pieces damaged / repaired in between.  One record per results() call:
    the figure and the truth on disk at that moment."""
    sbx = new_sandbox("cp")
    recs = []
    try:
        P, v, n = case["P"], case["version"], case["npieces"]
        size = (n - 1) * P + P // 2 + 3                  # the last piece is a short one: uneven weights
        tree = {"name": "proto.bin", "single": True, "files": [{"path": [], "size": size}]}
        root = alpha.materialize(tree, os.path.join(sbx, "p"))
        out = os.path.join(sbx, "m.torrent")
        st = make_metafile(dict(case, tree=tree, meta_src="own" if case["id"] % 2 else "ref"), root, out)
        ok = [True] * n

        def toggle(k):                                   # xor one byte of piece k: doing it again repairs the piece
            with open(root, "r+b") as fh:
                fh.seek((k - 1) * P + 1)
                b = fh.read(1)
                fh.seek((k - 1) * P + 1)
                fh.write(bytes([b[0] ^ 0xFF]))
            ok[k - 1] = not ok[k - 1]
        psize = [P] * (n - 1) + [size - (n - 1) * P]
        from torrentfile.recheck import Checker
        ck = None
        gens = {}
        rid = 10 ** 7 + case["id"] * 100
        if st != "ok":
            return [{"id": rid, "op": "proto", "group": "none", "version": v, "P": P, "clauses": case["clauses"],
                     "status": "create:" + st, "ppm": -1, "truth": [], "nostream": True, "stream": []}]
        for j, stp in enumerate(case["ops"]):
            op, g = stp["op"], stp["g"]
            if op == "bad":
                toggle(g)
                continue
            if op in ("init", "ok"):
                continue
            if ck is None:
                ck = Checker(out, root)
            rec = None
            try:
                if op == "open":
                    gens[g] = ck.iter_hashes()
                elif op == "advance" and g in gens:
                    next(gens[g], None)
                elif op == "abandon" and g in gens:
                    if j % 2:
                        gens[g].close()
                    del gens[g]
                elif op == "flip":
                    toggle(g)
                elif op == "results":
                    res = ck.results()
                    rec = {"status": "ok", "ppm": int(round(float(res) * 1000000))}
            except Exception as ex:
                rec = {"status": "exc:" + type(ex).__name__, "ppm": -1}
            if rec is not None:
                rec.update({"id": rid + j, "op": "proto", "group": "none", "version": v, "P": P, "clauses": case["clauses"],
                            "truth": [[bool(o), s] for o, s in zip(ok, psize)], "nostream": True, "stream": []})
                recs.append(rec)
        return recs
    finally:
        rm(sbx)


def run_scaled(case):
    """Scaled world: the universe TLC model-checked (piece length 2 or 3, files of 0..N bytes, every
    on-disk state) replayed into the REAL checker.  v1 needs nothing special (the piece length is just
    a number in the metafile); for v2 the block size constant of the hasher module is set to the
    scaled block size in this worker process."""
    sbx = new_sandbox("sc")
    try:
        P, v, recs_, disk = case["P"], case["version"], case["recs"], case["disk"]
        Bs = case.get("block", 2)
        import torrentfile.hasher as th
        import torrentfile.recheck as tr
        old_b = th.BLOCK_SIZE
        if v != 1:
            th.BLOCK_SIZE = Bs
            tr.BLOCK_SIZE = Bs
        try:
            name = "sw"
            root = os.path.join(sbx, "p", name)
            os.makedirs(root)
            files = []
            for fi, n in enumerate(recs_):
                data = content("scaled/%d/%d" % (case["id"], fi), n)
                files.append((["f%d" % fi], data))
            raw = refenc.build(name, files, P, v, single=False, block=Bs)
            out = os.path.join(sbx, "m.torrent")
            write_file(out, raw)
            for (comps, data), d in zip(files, disk):
                if not d["present"]:
                    continue
                b = bytearray(data[:d["len"]])
                for o in d["flips"]:
                    b[o] ^= 0xFF
                write_file(os.path.join(root, *comps), bytes(b))
            rec = {"id": case["id"], "op": "recheck", "group": "none", "clauses": case["clauses"], "version": v,
                   "P": P, "meta_src": "scaled", "route": "lib", "path_mode": "root", "recs": list(recs_),
                   "kinds": ["f"] * len(recs_), "disk": disk, "stream": [], "ppm": -1, "ppm2": -1, "status": "ok",
                   "nostream": False}
            try:
                from torrentfile.recheck import Checker
                ck = Checker(out, root)
                rec["stream"] = [[bool(c == p_), int(s)] for c, p_, _, s in ck.iter_hashes()]
                rec["ppm"] = rec["ppm2"] = int(round(float(ck._result) * 1000000))
            except Exception as ex:
                rec["status"] = "exc:" + type(ex).__name__
            return rec
        finally:
            th.BLOCK_SIZE = old_b
            tr.BLOCK_SIZE = old_b
    finally:
        rm(sbx)


def run_any(case):
    if case.get("op") == "findroot":
        return run_findroot(case)
    if case.get("op") == "proto":
        return run_proto(case)
    return run_scaled(case) if case.get("scaled") else run_recheck(case)


def run_findroot(case):
    """One world of spec/FindRoot.tla (directories above / below the payload named like the payload)
    built on disk; a reference-encoded metafile of the world's kind; the real Checker is given the
    payload root or its parent; recorded: the root it settled on and the verdict."""
    sbx = new_sandbox("fr")
    try:
        w, v, P = case["world"], case["version"], 16384
        base = os.path.join(sbx, "w")
        data = {}
        for comps in w["files"]:
            data[tuple(comps)] = content("fr/" + "/".join(comps), 20000 + 7 * len(comps))
            write_file(os.path.join(base, *comps), data[tuple(comps)])
        for comps in w["dirs"]:
            os.makedirs(os.path.join(base, *comps), exist_ok=True)
        root = list(w["root"])
        single = tuple(root) in data
        if single:
            files = [([], data[tuple(root)])]
        else:
            files = [(list(c[len(root):]), d) for c, d in sorted(data.items()) if list(c[:len(root)]) == root]
        os.makedirs(os.path.join(sbx, "o"))
        out = os.path.join(sbx, "o", "m.torrent")
        write_file(out, refenc.build(w["meta"]["name"], files, P, v, single=single))
        path = root if case["path_mode"] == "root" else list(w["parent"])
        rec = {"id": case["id"], "op": "findroot", "group": "none", "clauses": case["clauses"], "version": v,
               "world": {"files": w["files"], "dirs": w["dirs"]}, "fmeta": w["meta"], "path": path, "root": root,
               "got": ["error"], "ppm": -1, "ppm2": -1, "status": "ok", "path_mode": case["path_mode"]}
        cwd0 = os.getcwd()
        try:
            from torrentfile.recheck import Checker
            ck = Checker(out, os.path.join(base, *path))
            rel = os.path.relpath(str(ck.root), base)
            rec["got"] = rel.split(os.sep)
            rec["ppm"] = rec["ppm2"] = int(round(float(ck.results()) * 1000000))
        except SystemExit as ex:
            rec["status"] = "exit:%s" % ex.code
        except Exception as ex:
            rec["status"] = "exc:" + type(ex).__name__
        finally:
            os.chdir(cwd0)
        return rec
    finally:
        rm(sbx)


def run_recheck(case):
    sbx = new_sandbox("rc")
    try:
        tree = case["tree"]
        single = bool(tree.get("single"))
        # parent_named: the payload's parent directory carries the payload's own name
        pdir = os.path.join(sbx, "p", tree["name"]) if case.get("parent_named") else os.path.join(sbx, "p")
        root = alpha.materialize(tree, pdir)
        from .core import odd_meta
        mdir, mname = odd_meta(case)
        os.makedirs(os.path.join(sbx, mdir))
        out = os.path.join(sbx, mdir, mname)
        rec = {"id": case["id"], "op": "recheck", "group": case.get("group", "none"),
               "clauses": case["clauses"], "version": case["version"], "P": case["P"],
               "meta_src": case["meta_src"], "route": case.get("route", "lib"),
               "path_mode": case.get("path_mode", "root"), "recs": [], "kinds": [], "disk": [],
               "stream": [], "ppm": -1, "ppm2": -1, "status": "ok"}
        st = make_metafile(case, root, out)
        if st != "ok":
            rec["status"] = "create:" + st
            return rec
        with open(out, "rb") as fh:
            raw = fh.read()
        view = recorded_view(raw, case["version"], single)
        rec["recs"] = [ln for _, ln, _ in view]
        rec["kinds"] = [k for _, _, k in view]
        rec["disk"] = apply_damage(root, single, view, case.get("damage", []), tree, case["P"])
        path = root if case.get("path_mode", "root") == "root" else os.path.dirname(root)
        if not os.path.exists(root):
            # the payload root itself vanished (single file removed): give the parent
            path = os.path.dirname(root)
            rec["path_mode"] = "parent"
        if case.get("noise") and os.path.isdir(root):      # files the torrent does not describe
            write_file(os.path.join(root, "zz-not-in-torrent.txt"), b"noise")
            write_file(os.path.join(root, "zz-extra-dir", "more.bin"), b"\x00" * 100)
        if case.get("noise"):
            # siblings of the payload that merely LOOK like it: same name in another letter case (sorting
            # before and after), name plus a suffix, name minus its last character
            par, nm = os.path.dirname(root), tree["name"]
            for alt in (nm.swapcase(), nm.upper(), nm.capitalize(), nm + ".bak", nm + "~", nm[:-1]):
                ap = os.path.join(par, alt)
                if alt and alt != nm and not os.path.lexists(ap):
                    if single:
                        write_file(ap, b"\x07" * tree["files"][0]["size"])
                    else:
                        for f in tree["files"][:2]:
                            write_file(os.path.join(ap, *f["path"]), b"\x07" * f["size"])
        if case.get("via_symlink") and os.path.exists(path):   # the content path is a symbolic link
            alias_dir = os.path.join(sbx, "links")
            os.makedirs(alias_dir, exist_ok=True)
            alias = os.path.join(alias_dir, os.path.basename(path))
            os.symlink(path, alias)
            path = alias
        cwd0 = os.getcwd()
        if case.get("rel_paths"):           # relative spellings of both paths, from the sandbox
            os.chdir(sbx)
            out, path = os.path.relpath(out, sbx), os.path.relpath(path, sbx)
        try:
            from torrentfile.recheck import Checker
            if case.get("route", "lib") == "cli":
                from torrentfile.cli import execute
                res = execute(["recheck", out, path])
                res2 = res
                stream = []
                rec["nostream"] = True
            else:
                ck = Checker(out, path)
                stream = [[bool(chunk == piece), int(size)] for chunk, piece, _, size in ck.iter_hashes()]
                res = ck._result
                proto = case.get("proto", "fresh")
                if proto == "abandon":        # a walk given up after a few pieces (cancel), then the figure is asked for
                    ck2 = Checker(out, path)
                    it = ck2.iter_hashes()
                    for _ in range(1 + case["id"] % 3):
                        if next(it, None) is None:
                            break
                    if case["id"] % 2:
                        it.close()
                    res2 = ck2.results()
                elif proto == "twice":        # asked twice
                    ck2 = Checker(out, path)
                    ck2.results()
                    res2 = ck2.results()
                elif proto == "after_iter":   # asked on the object that was just iterated
                    res2 = ck.results()
                else:
                    res2 = Checker(out, path).results()
                rec["nostream"] = False
            rec["stream"] = stream
            rec["ppm"] = int(round(float(res) * 1000000))
            rec["ppm2"] = int(round(float(res2) * 1000000))
        except SystemExit as ex:
            rec["status"] = "exit:%s" % ex.code
        except Exception as ex:
            rec["status"] = "exc:" + type(ex).__name__
        finally:
            os.chdir(cwd0)
        rec.setdefault("nostream", True)
        return rec
    finally:
        rm(sbx)
