"""Driver for C11: magnet URIs of metafiles created here, edited here, or reference-encoded."""
import os
import urllib.parse

from . import alpha, refenc
from .core import bdecode_strict, hexs, new_sandbox, rm, sha1, sha256, write_file
from .create import create_meta
from .recheck import tree_files


def sym_meta(raw):
    root, _, _ = bdecode_strict(raw)
    info = root.get(b"info")
    span = raw[info.start:info.end]
    ann = root.get(b"announce")
    al = root.get(b"announce-list")
    ul = root.get(b"url-list")
    tiers = ["-"]
    if al is not None:
        tiers = ["+"] + [[hexs(u.val) for u in t.val] for t in al.val]
    if ul is None:
        seeds = ["-"]
    elif ul.kind == "str":
        seeds = ["str", hexs(ul.val)]
    else:
        seeds = ["list"] + [[hexs(u.val)] for u in ul.val]
    m = {"v1": info.get(b"pieces") is not None, "v2": info.get(b"meta version") is not None,
         "name": hexs(info.get(b"name").val), "announce": hexs(ann.val) if ann is not None else "none",
         "tiers": tiers, "seeds": seeds}
    return m, sha1(span).hex(), sha256(span).hex()


def run_magnet(case):
    sbx = new_sandbox("mg")
    try:
        tree = case["tree"]
        root = alpha.materialize(tree, os.path.join(sbx, "p"))
        from .core import odd_meta
        mdir, mname = odd_meta(case)
        os.makedirs(os.path.join(sbx, mdir))
        out = os.path.join(sbx, mdir, mname)
        v = case["version"]
        rec = {"id": case["id"], "op": "magnet", "clauses": case["clauses"], "request": case["request"],
               "status": "ok", "scheme_ok": False, "xt": [], "dn": [], "tr": [], "ws": [], "other": [],
               "meta": {"v1": False, "v2": False, "name": "", "announce": "none", "tiers": ["-"], "seeds": ["-"]},
               "src": case["src"], "route": case["route"]}
        if case["src"] in ("own", "edited"):
            st = create_meta({"creator": "TorrentFile" if v == 1 else "TorrentAssembler", "version": v,
                              "P": case["P"], "opts": case.get("opts") or {}}, root, out)
            if st != "ok":
                rec["status"] = "create:" + st
                return rec
            if case["src"] == "edited":
                from torrentfile.edit import edit_torrent
                edit_torrent(out, dict(case["edit"]))
        else:
            raw = refenc.build(tree["name"], tree_files(tree), case["P"], v, single=bool(tree.get("single")),
                               extra_info=case.get("extra_info"), extra_top=case.get("extra_top"))
            write_file(out, raw)
        with open(out, "rb") as fh:
            raw = fh.read()
        rec["meta"], h1, h2 = sym_meta(raw)
        try:
            if case["route"] == "cli":
                from torrentfile.cli import execute
                argv = ["magnet", out]
                if case["request"]:
                    argv += ["--meta-version", str(case["request"])]
                uri = execute(argv)
            else:
                from torrentfile.commands import magnet
                uri = magnet(out, version=case["request"])
        except SystemExit as ex:
            rec["status"] = "exit:%s" % ex.code
            return rec
        except Exception as ex:
            rec["status"] = "exc:" + type(ex).__name__
            return rec
        if not isinstance(uri, str) or not uri.startswith("magnet:?"):
            rec["status"] = "noturi"
            return rec
        rec["scheme_ok"] = True
        pairs = urllib.parse.parse_qsl(uri[len("magnet:?"):], keep_blank_values=True, strict_parsing=False,
                                       encoding="utf-8", errors="surrogateescape")
        for k, val in pairs:
            if k == "xt":
                if val.startswith("urn:btih:"):
                    d = val[9:].lower()
                    rec["xt"].append({"kind": "btih", "eq_sha1": d == h1, "eq_sha256": False})
                elif val.startswith("urn:btmh:1220"):
                    d = val[13:].lower()
                    rec["xt"].append({"kind": "btmh", "eq_sha1": False, "eq_sha256": d == h2})
                else:
                    rec["xt"].append({"kind": "other", "eq_sha1": False, "eq_sha256": False})
            elif k == "dn":
                rec["dn"].append(hexs(val))
            elif k == "tr":
                rec["tr"].append(hexs(val))
            elif k == "ws":
                rec["ws"].append([hexs(val)])
            else:
                rec["other"].append(hexs(k))
        return rec
    finally:
        rm(sbx)
