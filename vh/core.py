"""Shared harness core: seeds, deterministic content, strict bencode, sandboxes,
TLC runner, worker pool, evidence / replay / known-finding handling.

The harness only *abstracts* (DESIGN.md section 3); verdicts come from TLC.
"""
import hashlib
import json
import multiprocessing as mp
import os
import re
import shutil
import signal
import subprocess
import sys
import tempfile
import time

VERIF = os.path.dirname(os.path.dirname(os.path.abspath(__file__)))
REPO = os.environ.get("VERIF_REPO", "/repo")
SPEC = os.path.join(VERIF, "spec")
EVID = os.path.join(VERIF, "evidence")
REPLAYS = os.path.join(VERIF, "replays")
SEED = int(os.environ.get("VERIF_SEED", "0") or 0)
BLOCK = 16384
NCPU = min(16, os.cpu_count() or 4)


class Machinery(Exception):
    """The verification machinery itself failed (exit code 2, never a VIOLATION)."""


# ---------------------------------------------------------------------------------------------
# deterministic content: bytes in 1..255, prefix-stable in size, keyed by (seed, key, gen)
# ---------------------------------------------------------------------------------------------
_TR = bytes(((b % 255) + 1) for b in range(256))


U8SHA1 = b"payload-137800"      # sha1 = 4f3039d68a2b155223c59107cd90647b3d6d7d30: '0', '9', U+058A, '+', ... all well-formed UTF-8


def content(key, size, gen=0, seed=None, mode="rand"):
    """Deterministic file content.  mode "rand": bytes 1..255, unique per key (default);
    "zeros": all zero bytes; "repeat": one 16 KiB block repeated; "sparse": random with long runs of
    zero bytes; "same": random but identical for every key (duplicate files); "const": one non-zero byte
    value; "period": one 64-byte record repeated (both identical for every key, so that the byte one piece
    length earlier is the same byte even across file boundaries)."""
    if size <= 0:
        return b""
    s = SEED if seed is None else seed
    if mode == "zeros":
        return bytes(size)
    if mode == "u8sha1":           # 14 bytes whose SHA-1 digest is, read as text, valid UTF-8 (a decoder that hands back
        return U8SHA1[:size]       # text for such byte strings must not confuse whoever compares digests)
    if mode == "xl":               # the default content of this key with every byte changed (still 1..255)
        table = bytes(((x - 1 + 97) % 255) + 1 if x else 7 for x in range(256))
        return content(key, size, gen, seed, "rand").translate(table)
    if mode == "const":            # one non-zero byte value throughout (erased flash, filler), the same for every key
        return bytes([0xA5 + s % 7]) * size
    if mode == "same":
        key = "same-content"
    if mode == "period":           # identical 64-byte records, the same for every key: any period dividing the piece length
        rec = hashlib.shake_256(("%d/period" % s).encode()).digest(64).translate(_TR)
        return (rec * (size // 64 + 1))[:size]
    h = hashlib.shake_256(("%d/%s/%d" % (s, key, gen)).encode())
    if mode == "repeat":
        blk = h.digest(BLOCK).translate(_TR)
        return (blk * (size // BLOCK + 1))[:size]
    data = h.digest(size).translate(_TR)
    if mode in ("ztail", "zhead", "zmid"):      # a run of 64 KiB (or more) of zero bytes at the end / start / in the middle
        run = min(size, 65536 if size < 4 * 65536 else 2 * 65536)
        at = {"ztail": size - run, "zhead": 0, "zmid": ((size - run) // 2) // 65536 * 65536}[mode]
        return data[:at] + bytes(run) + data[at + run:]
    if mode == "sparse":
        b = bytearray(data)
        for start in range(0, size, 3 * BLOCK):
            b[start:start + BLOCK + 17] = bytes(min(BLOCK + 17, size - start))
        return bytes(b)
    return data


def sha1(b):
    return hashlib.sha1(b).digest()  # nosec


def sha256(b):
    return hashlib.sha256(b).digest()


# ---------------------------------------------------------------------------------------------
# strict bencode decoder (independent of pyben) and canonical reference encoder
# ---------------------------------------------------------------------------------------------
class BNode:
    __slots__ = ("kind", "val", "start", "end")

    def __init__(self, kind, val, start, end):
        self.kind, self.val, self.start, self.end = kind, val, start, end

    def get(self, key):
        if self.kind != "dict":
            return None
        if isinstance(key, str):
            key = key.encode()
        for k, v in self.val:
            if k.val == key:
                return v
        return None

    def keys(self):
        return [k.val for k, _ in self.val]

    def py(self):
        """Plain python value (bytes for strings)."""
        if self.kind == "int" or self.kind == "str":
            return self.val
        if self.kind == "list":
            return [x.py() for x in self.val]
        return {k.val: v.py() for k, v in self.val}


class BDecodeError(Exception):
    pass


def bdecode_strict(data):
    """Return (root BNode, tokens_ok, problems).  tokens_ok is the byte-level canonicity flag
    (minimal integers and string lengths, string keys, nothing after the top-level value);
    dictionary key ORDER is deliberately not judged here - TLC does that."""
    problems = []
    n = len(data)

    def parse(i):
        if i >= n:
            raise BDecodeError("eof at %d" % i)
        c = data[i:i + 1]
        if c == b"i":
            j = data.find(b"e", i)
            if j < 0:
                raise BDecodeError("unterminated int")
            txt = data[i + 1:j]
            if not re.fullmatch(rb"-?\d+", txt):
                raise BDecodeError("bad int %r" % txt)
            if re.fullmatch(rb"-?0\d+", txt) or txt == b"-0":
                problems.append("noncanonical int %r at %d" % (txt, i))
            return BNode("int", int(txt), i, j + 1)
        if c.isdigit():
            j = data.find(b":", i)
            if j < 0:
                raise BDecodeError("unterminated strlen")
            txt = data[i:j]
            if not txt.isdigit():
                raise BDecodeError("bad strlen %r" % txt)
            if len(txt) > 1 and txt[0:1] == b"0":
                problems.append("noncanonical strlen %r at %d" % (txt, i))
            ln = int(txt)
            if j + 1 + ln > n:
                raise BDecodeError("string overruns")
            return BNode("str", data[j + 1:j + 1 + ln], i, j + 1 + ln)
        if c == b"l":
            items = []
            k = i + 1
            while True:
                if k >= n:
                    raise BDecodeError("unterminated list")
                if data[k:k + 1] == b"e":
                    return BNode("list", items, i, k + 1)
                node = parse(k)
                items.append(node)
                k = node.end
        if c == b"d":
            items = []
            k = i + 1
            while True:
                if k >= n:
                    raise BDecodeError("unterminated dict")
                if data[k:k + 1] == b"e":
                    return BNode("dict", items, i, k + 1)
                key = parse(k)
                if key.kind != "str":
                    problems.append("non-string key at %d" % k)
                val = parse(key.end)
                items.append((key, val))
                k = val.end
        raise BDecodeError("bad token %r at %d" % (c, i))

    root = parse(0)
    if root.end != n:
        problems.append("trailing bytes after top-level value")
    return root, not problems, problems


def bencode(obj):
    """Canonical reference encoder: dict keys sorted by raw bytes."""
    if isinstance(obj, bool):
        raise TypeError("bool")
    if isinstance(obj, int):
        return b"i%de" % obj
    if isinstance(obj, str):
        obj = obj.encode()
    if isinstance(obj, (bytes, bytearray)):
        return b"%d:%s" % (len(obj), bytes(obj))
    if isinstance(obj, (list, tuple)):
        return b"l" + b"".join(bencode(x) for x in obj) + b"e"
    if isinstance(obj, dict):
        items = []
        for k, v in obj.items():
            kb = k.encode() if isinstance(k, str) else bytes(k)
            items.append((kb, v))
        items.sort(key=lambda kv: kv[0])
        return b"d" + b"".join(bencode(k) + bencode(v) for k, v in items) + b"e"
    raise TypeError(type(obj))


def hexs(s):
    """Free text travels as lower-case hex of its UTF-8 bytes (Json module mangles non-ASCII)."""
    if isinstance(s, str):
        s = s.encode("utf-8", "surrogateescape")
    return bytes(s).hex()


# ---------------------------------------------------------------------------------------------
# sandboxes (always outside /repo and /verif)
# ---------------------------------------------------------------------------------------------
_TMPROOT = None


def tmproot():
    global _TMPROOT
    if _TMPROOT is None:
        base = os.environ.get("VERIF_TMP", tempfile.gettempdir())
        _TMPROOT = tempfile.mkdtemp(prefix="vh-%d-" % os.getpid(), dir=base)
    return _TMPROOT


def cleanup_tmproot():
    global _TMPROOT
    if _TMPROOT and os.path.isdir(_TMPROOT):
        shutil.rmtree(_TMPROOT, ignore_errors=True)
    _TMPROOT = None


_sbx_counter = [0]


def new_sandbox(tag="s"):
    """A fresh, never re-used directory (so the process-wide Memo cache can never be hit by a
    path of an earlier case)."""
    _sbx_counter[0] += 1
    d = os.path.join(tmproot(), "%s-%d-%d" % (tag, os.getpid(), _sbx_counter[0]))
    os.makedirs(d)
    return d


def rm(path):
    shutil.rmtree(path, ignore_errors=True)


def write_file(path, data):
    os.makedirs(os.path.dirname(path), exist_ok=True)
    with open(path, "wb") as f:
        f.write(data)


def snapshot(root):
    """Recursive snapshot: relpath -> (kind, size, sha1-hex, mode)."""
    out = {}
    for dp, dns, fns in os.walk(root):
        dns.sort()
        rel = os.path.relpath(dp, root)
        if rel != ".":
            out[rel] = ("d", 0, "", os.stat(dp).st_mode & 0o7777)
        for fn in sorted(fns):
            p = os.path.join(dp, fn)
            r = os.path.normpath(os.path.join(rel, fn))
            if os.path.islink(p):
                out[r] = ("l", 0, os.readlink(p), 0)
                continue
            with open(p, "rb") as f:
                data = f.read()
            out[r] = ("f", len(data), hashlib.sha1(data).hexdigest(), os.stat(p).st_mode & 0o7777)  # nosec
    return out


# ---------------------------------------------------------------------------------------------
# worker pool: the code under test runs in forked workers with stdout silenced
# ---------------------------------------------------------------------------------------------
class CaseTimeout(BaseException):     # (not an Exception: the drivers record exceptions of the code under test)
    pass


class Hang(Exception):
    """Cases of the code under test did not return within the time limit (results of the cases that timed out)."""
    def __init__(self, hung):
        Exception.__init__(self, "%d case(s) did not return" % len(hung))
        self.hung = hung


HANG_LIMIT = 6          # so many cases that do not return end the run at once (a change that loops would otherwise
                        # keep every worker busy for cases x time limit)


# where a metafile lives / what it is called: '%' and braces (format strings), blanks, non-ASCII, upper-case extension
ODD_META = [("o", "m.torrent"), ("o", "My%20Payload.torrent"), ("100% dir", "m.torrent"), ("o", "{0} %s %(x)s.torrent"),
            ("o d", "sp ace.torrent"), ("o", "\u00fcn\u00ef.torrent"), ("o", "UPPER.TORRENT")]


def odd_meta(case):
    """(directory name, file name) for the metafile of this case: every third case gets an unusual one."""
    k = case.get("id", 0) if isinstance(case.get("id", 0), int) else 0
    return ODD_META[(k // 3) % len(ODD_META)] if k % 3 == 0 else ODD_META[0]


def _alarm(signum, frame):
    raise CaseTimeout()


_COV = None


def _worker_init():
    global _COV
    sys.path.insert(0, REPO)
    if os.environ.get("VERIF_COV"):      # development aid: which lines of the code under test the cases reach
        import coverage
        _COV = coverage.Coverage(data_file=os.path.join(os.environ["VERIF_COV"], ".coverage"), data_suffix=True,
                                 branch=True, source=[os.path.join(REPO, "torrentfile")])
        _COV.start()
    sys.dont_write_bytecode = True
    devnull = os.open(os.devnull, os.O_WRONLY)
    os.dup2(devnull, 1)
    os.dup2(devnull, 2)
    sys.stdout = open(os.devnull, "w")
    sys.stderr = open(os.devnull, "w")
    signal.signal(signal.SIGALRM, _alarm)
    import logging
    logging.disable(logging.INFO)       # warnings and errors of the code under test stay live (to /dev/null)


def _run_case(args):
    fn, case, timeout = args
    signal.alarm(timeout)
    try:
        return fn(case)
    except CaseTimeout:
        return {"id": case.get("id", -1), "status": "timeout", "case": case}
    except Exception:
        # the DRIVER itself failed (exceptions of the code under test are caught and recorded by the drivers): reported
        # as a machinery failure with the case that caused it, never as a verdict and never as a bare traceback
        import traceback
        return {"_driver_crash": traceback.format_exc()[-1500:], "id": case.get("id", -1),
                "case": {k: v for k, v in case.items() if k != "clauses"}}
    finally:
        signal.alarm(0)
        if _COV is not None:
            _COV.save()


def run_cases(fn, cases, timeout=120, procs=None, chunksize=4, isolate=False):
    """Run fn(case) for every case in forked worker processes; returns results in order.
    fn must be a module-level function; it returns a JSON-able record."""
    procs = procs or NCPU
    if not cases:
        return []
    if os.environ.get("VERIF_CASE_TIMEOUT"):      # development aid
        timeout = int(os.environ["VERIF_CASE_TIMEOUT"])
    tmproot()  # create before fork so that children share it
    ctx = mp.get_context("fork")
    # isolate: every case in a brand-new process (fresh import of the code under test), so that
    # process-lifetime state of the code (C09) cannot leak from one case into another
    with ctx.Pool(procs, initializer=_worker_init, maxtasksperchild=1 if isolate else 200) as pool:
        res, hung = [], []
        for r in pool.imap(_run_case, [(fn, c, timeout) for c in cases], chunksize=1 if isolate else chunksize):
            res.append(r)
            if isinstance(r, dict) and r.get("status") == "timeout" and "clauses" not in r:
                hung.append(r)
                if len(hung) >= HANG_LIMIT:
                    pool.terminate()
                    raise Hang(hung)
    if hung:
        raise Hang(hung)
    for r in res:
        if isinstance(r, dict) and "_driver_crash" in r:
            raise Machinery("the harness driver crashed on case %s\n%s" % (json.dumps(r["case"], default=str)[:600], r["_driver_crash"]))
    return res


def run_isolated(fn, case, timeout=120):
    """Run one case in a brand-new forked process (fresh import of the code under test)."""
    return run_cases(fn, [case], timeout=timeout, procs=1)[0]


# ---------------------------------------------------------------------------------------------
# TLC runner
# ---------------------------------------------------------------------------------------------
TLC_JAR = "/opt/veriftools/tla/tla2tools.jar:/opt/veriftools/tla/CommunityModules-deps.jar"


class TlcResult:
    def __init__(self):
        self.rc = None
        self.out = ""
        self.generated = 0
        self.distinct = 0
        self.depth = 0
        self.fails = []       # parsed <<"FAIL", id, clause>> lines
        self.prints = []      # other PrintT tuples (raw text)
        self.violation = None  # invariant / property violated (text) or None
        self.error = None     # machinery-level error text or None
        self.coverage = {}
        self.wall = 0.0
        self.cmd = ""


_FAIL_RE = re.compile(r'<<"FAIL", ("?[^,"]*"?), "([^"]*)"(?:, (.*))?>>')


def run_tlc(module, cfg, env=None, workers=1, simulate=None, depth=None, seed=None,
            timeout=1800, coverage=False, extra=None, xmx="2g", deque=False, cwd=None):
    """Run TLC on spec/<module>.tla with spec/<cfg>.  Returns TlcResult."""
    meta = tempfile.mkdtemp(prefix="tlcmeta-", dir=tmproot())
    cmd = ["java", "-XX:+UseParallelGC", "-Xss64m", "-Xmx" + xmx]
    if deque:
        cmd.append("-Dtlc2.tool.queue.IStateQueue=StateDeque")
    cmd += ["-cp", TLC_JAR, "tlc2.TLC", "-workers", str(workers), "-metadir", meta,
            "-noGenerateSpecTE", "-config", cfg]
    if coverage:
        cmd += ["-coverage", "1"]
    if simulate:
        cmd += ["-simulate", simulate]
    if depth:
        cmd += ["-depth", str(depth)]
    if seed is not None:
        cmd += ["-seed", str(seed)]
    if extra:
        cmd += list(extra)
    cmd.append(module)
    e = dict(os.environ)
    if env:
        e.update({k: str(v) for k, v in env.items()})
    r = TlcResult()
    r.cmd = " ".join(cmd)
    t0 = time.time()
    try:
        p = subprocess.run(cmd, cwd=cwd or SPEC, env=e, stdout=subprocess.PIPE,
                           stderr=subprocess.STDOUT, timeout=timeout)
        r.rc = p.returncode
        r.out = p.stdout.decode("utf-8", "replace")
    except subprocess.TimeoutExpired as ex:
        r.rc = -9
        r.out = (ex.stdout or b"").decode("utf-8", "replace")
        if not simulate:
            r.error = "TLC timeout after %ds" % timeout
    r.wall = time.time() - t0
    rm(meta)
    for line in r.out.splitlines():
        m = re.match(r"(\d+) states generated, (\d+) distinct states found", line)
        if m:
            r.generated, r.distinct = int(m.group(1)), int(m.group(2))
        m = re.match(r"The depth of the complete state graph search is (\d+)", line)
        if m:
            r.depth = int(m.group(1))
        m = _FAIL_RE.match(line.strip())
        if m:
            ident = m.group(1).strip('"')
            try:
                ident = int(ident)
            except ValueError:
                pass
            r.fails.append((ident, m.group(2), m.group(3)))
        elif line.startswith("<<") or line.startswith("["):
            r.prints.append(line)
        m = re.match(r"Error: Invariant (\S+) is violated", line)
        if m:
            r.violation = "invariant " + m.group(1)
        m = re.match(r"Error: Action property (\S+) is violated", line)
        if m:
            r.violation = "action property " + m.group(1)
        if "Temporal properties were violated" in line:
            r.violation = "temporal property"
        m = re.match(r"Error: Temporal property (\S+) was violated", line)
        if m:
            r.violation = "temporal property " + m.group(1)
        if line.startswith("Error: Deadlock reached"):
            r.violation = "deadlock"
        m = re.match(r"<(\w+) line \d+, col \d+ to line \d+, col \d+ of module (\w+)>: (\d+):(\d+)", line)
        if m:
            r.coverage[m.group(2) + "!" + m.group(1)] = (int(m.group(3)), int(m.group(4)))
    if r.rc not in (0,) and r.violation is None and r.error is None:
        if r.rc == 13 or "is violated" in r.out and "Postcondition" in r.out.replace("POSTCONDITION", "Postcondition"):
            r.error = "postcondition violated"
        elif simulate and r.rc == -9:
            pass
        else:
            tail = "\n".join(r.out.splitlines()[-25:])
            r.error = "TLC rc=%s\n%s" % (r.rc, tail)
    return r


def tlc_must_hold(res, what):
    if res.error:
        raise Machinery("%s: %s" % (what, res.error))
    if res.violation:
        raise Machinery("%s: the specification itself violates %s\n%s"
                        % (what, res.violation, "\n".join(res.out.splitlines()[-60:])))
    if res.generated == 0:
        raise Machinery("%s: TLC explored no states\n%s" % (what, res.out[-2000:]))


def tlc_must_fail(res, what):
    if res.error and not res.violation:
        raise Machinery("%s: %s" % (what, res.error))
    if not res.violation:
        raise Machinery("%s: a deliberately wrong variant was accepted by TLC (vacuous spec?)" % what)


# ---------------------------------------------------------------------------------------------
# trace judging: write records, shard, run TLC, collect FAIL tuples
# ---------------------------------------------------------------------------------------------
def _sanitize(o):
    """No nulls, no floats in records sent to TLC."""
    if o is None:
        return "none"
    if isinstance(o, bool):
        return o
    if isinstance(o, float):
        raise Machinery("float in trace record")
    if isinstance(o, int):
        if abs(o) >= 2 ** 31:
            raise Machinery("integer too large for TLC in trace record: %d" % o)
        return o
    if isinstance(o, (bytes, bytearray)):
        return bytes(o).hex()
    if isinstance(o, dict):
        return {str(k): _sanitize(v) for k, v in o.items()}
    if isinstance(o, (list, tuple)):
        return [_sanitize(x) for x in o]
    return o


def _judge_shard(args):
    module, cfg, path, timeout = args
    r = run_tlc(module, cfg, env={"TRACE_FILE": path}, workers=1, timeout=timeout, xmx="3g")
    return r


def judge(module, cfg, records, shards=None, timeout=1800, group_key=None):
    """Validate records with TLC (spec/<module>.tla + <cfg>).  Records sharing group_key stay in
    one shard, in order.  Returns (fails, stats)."""
    recs = [_sanitize(r) for r in records]
    if not recs:
        raise Machinery("no trace records to judge")
    shards = shards or NCPU
    groups = []
    if group_key:
        cur, last = [], object()
        for r in recs:
            g = r[group_key]
            if (g != last or g in (None, "none")) and cur:      # (records outside any group stand alone)
                groups.append(cur)
                cur = []
            cur.append(r)
            last = g
        if cur:
            groups.append(cur)
    else:
        groups = [[r] for r in recs]
    # shards are balanced by BYTES and capped (a shard is deserialised whole by one JVM: a thorough run with long piece
    # layers filled a 2 GB heap with 24 MB of text); at most `shards` JVMs run at a time
    texts = [[json.dumps(r, separators=(",", ":")) for r in g] for g in groups]
    gbytes = [sum(len(t) + 1 for t in ts) for ts in texts]
    cap = 6 * 2 ** 20          # (TLC values take a few hundred times the room of the JSON text they come from)
    nsh = max(1, min(len(groups), max(shards, -(-sum(gbytes) // cap))))
    buckets = [[] for _ in range(nsh)]
    btexts = [[] for _ in range(nsh)]
    sizes = [0] * nsh
    for g, ts, nb in zip(groups, texts, gbytes):
        k = sizes.index(min(sizes))
        buckets[k].extend(g)
        btexts[k].extend(ts)
        sizes[k] += nb
    d = tempfile.mkdtemp(prefix="judge-", dir=tmproot())
    jobs = []
    for k, ts in enumerate(btexts):
        p = os.path.join(d, "shard%d.ndjson" % k)
        with open(p, "w") as f:
            for t in ts:
                f.write(t + "\n")
        jobs.append((module, cfg, p, timeout))
    import concurrent.futures as cf
    with cf.ThreadPoolExecutor(max_workers=min(nsh, shards)) as ex:
        results = list(ex.map(_judge_shard, jobs))
    fails, gen, dist = [], 0, 0
    for k, r in enumerate(results):
        if r.error or r.violation:
            lines = r.out.splitlines()
            if os.environ.get("VERIF_DEBUG_DIR"):
                with open(os.path.join(os.environ["VERIF_DEBUG_DIR"], "judge_fail_%d.out" % k), "w") as fh:
                    fh.write(r.cmd + "\n" + r.out)
            hits = [n for n, ln in enumerate(lines) if re.search(r"rror|xception", ln)
                    and "No error has been found" not in ln]
            ctx = lines[hits[0]:hits[0] + 25] if hits else lines[-40:]
            raise Machinery("trace validation (%s/%s shard %d) failed to run: %s\n%s" % (
                module, cfg, k, r.error or r.violation, "\n".join(ctx)))
        if r.distinct < len(buckets[k]) + 1:
            raise Machinery("trace validation consumed %d of %d records (%s)" % (
                r.distinct - 1, len(buckets[k]), module))
        fails.extend(r.fails)
        gen += r.generated
        dist += r.distinct
    rm(d)
    return fails, {"states": dist, "transitions": gen, "shards": nsh,
                   "cmd": results[0].cmd if results else ""}


# ---------------------------------------------------------------------------------------------
# evidence, replays, known findings
# ---------------------------------------------------------------------------------------------
def load_known():
    p = os.path.join(VERIF, "known_findings.json")
    if not os.path.exists(p):
        return []
    with open(p) as f:
        return json.load(f)["findings"]


def write_evidence(pid, tier, level, coverage, wall, violations, assumptions):
    if os.environ.get("VERIF_NO_EVIDENCE"):
        return
    os.makedirs(EVID, exist_ok=True)
    ev = {"property_id": pid, "tier": tier, "seed": SEED, "level": level, "coverage": coverage,
          "assumptions": assumptions, "wall_s": round(wall, 2), "violations": violations}
    tmp = os.path.join(EVID, pid + ".json.tmp")
    with open(tmp, "w") as f:
        json.dump(ev, f, indent=1, sort_keys=True, default=str)
    os.replace(tmp, os.path.join(EVID, pid + ".json"))


def write_replay(pid, payload):
    global REPLAYS
    if os.environ.get("VERIF_REPLAY_DIR"):
        REPLAYS = os.environ["VERIF_REPLAY_DIR"]
    os.makedirs(REPLAYS, exist_ok=True)
    blob = json.dumps(payload, sort_keys=True, default=str)
    name = "%s-%s.json" % (pid, hashlib.sha1(blob.encode()).hexdigest()[:12])  # nosec
    p = os.path.join(REPLAYS, name)
    with open(p, "w") as f:
        f.write(blob)
    return p
