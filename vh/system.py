"""Driver for C09: operation histories executed in ONE interpreter, every step also executed in
a brand-new interpreter (subprocess) on the same filesystem state."""
import json
import os
import shutil
import subprocess
import sys

from . import alpha
from .core import REPO, VERIF, content, hexs, new_sandbox, rm, sha1, snapshot, write_file

P = 16384
SIZES = {0: 0, 1: 40000, 2: 70001, 3: 90000,      # piece counts at 16 KiB / 32 KiB: 3|2, 5|3, 6|3
         4: 20000000, 5: 40000600}                  # above the first / second threshold of the automatic piece length
RELS = {"r/a": ["a"], "r/d/b": ["d", "b"], "r/d/c": ["d", "c"]}


def fpath(base, key):
    return os.path.join(base, "r", *RELS[key])


def tpath(base, target):
    return os.path.join(base, *target.split("/"))


def write_state(base, key, size_idx, gen):
    write_file(fpath(base, key), content("sys/" + key, SIZES[size_idx], gen))


def snap_sig(root):
    if not os.path.isdir(root):
        return "absent"
    s = snapshot(root)
    return sha1(json.dumps(sorted((k, v[0], v[1], v[2]) for k, v in s.items())).encode()).hex()


def do_op(op, base, target, version, metafile, scratch, plen=1, alt=False, route="lib", align=False):
    """Execute one tool operation; returns a JSON-able signature of its observable result."""
    from .create import create_meta, rest_sig
    try:
        if op == "createfail":
            op = "create"           # a create that cannot succeed: same call, the failure is the result
        if op == "create":
            # alt: the class-based creator (other hasher classes) instead of the CLI's assembler
            creator = "TorrentFile" if version == 1 else ("TorrentAssembler", "TorrentFileV2", "TorrentFileHybrid")[
                0 if not alt else (1 if version == 2 else 2)]
            if route == "lib":
                # (plen 0: no piece length given - the automatic choice)
                st = create_meta({"creator": creator, "version": version, "P": P * plen, "align": align and version == 1},
                                 tpath(base, target), metafile)
            else:
                # through torrentfile.cli.execute: plain, with a tracker flag, or with a configuration
                # file that names a tracker and a web seed
                from torrentfile.cli import execute
                argv = ["create", tpath(base, target), "-o", metafile, "--prog", "0", "--meta-version", str(version)] + (
                    ["--piece-length", str(P * plen)] if plen else [])
                if align and version == 1:
                    argv += ["--align"]
                if route == "clitracker":
                    argv += ["-a", "http://flag.example/announce"]
                if route == "cliconfig":
                    os.makedirs(scratch, exist_ok=True)
                    ini = os.path.join(scratch, "cfg.ini")
                    with open(ini, "w") as fh:
                        # two configuration files in turn: a rich one and one that names a tracker only
                        # (what the first one set must not linger in the process)
                        if alt:
                            fh.write("[config]\nannounce =\n    http://cfg.example/announce\nweb-seed =\n    http://cfg.example/w/\n"
                                     "comment = from config\nsource = CFG\nprivate = true\n")
                        else:
                            fh.write("[config]\nannounce =\n    http://other.example/announce\n")
                    argv += ["--config", "--config-path", ini]
                st = "ok"
                try:
                    execute(argv)
                except SystemExit as ex:
                    st = "exit:%s" % ex.code
                except Exception as ex:
                    st = "exc:" + type(ex).__name__
            if st != "ok":
                return {"status": st, "sig": ""}
            with open(metafile, "rb") as fh:
                return {"status": "ok", "sig": rest_sig(fh.read())}
        if op == "recheck":
            from torrentfile.recheck import Checker
            ck = Checker(metafile, tpath(base, target))
            res = ck.results()
            return {"status": "ok", "sig": "%d" % int(round(float(res) * 1000000))}
        if op == "magnetv":       # through the command line, verbose: logging stays configured afterwards
            from torrentfile.cli import execute
            execute(["-v", "magnet", metafile])
            return {"status": "ok", "sig": "verbose"}
        if op == "magnet":
            from torrentfile.commands import magnet
            return {"status": "ok", "sig": magnet(metafile, version=0)}
        if op == "edit":
            from torrentfile.edit import edit_torrent
            edit_torrent(metafile, {"comment": "edited", "announce": ["http://x.example/a"]})
            with open(metafile, "rb") as fh:
                return {"status": "ok", "sig": sha1(fh.read()).hex()}
        if op == "editsame":
            # an edit that leaves the metafile's LENGTH and its modification time as they were (same-length values,
            # written within the same clock tick): nothing but its bytes says that it changed
            from torrentfile.edit import edit_torrent
            import pyben
            st0 = os.stat(metafile)
            cur = pyben.load(metafile)
            swap = lambda t: t[:-1] + ("b" if t[-1] != "b" else "c")
            req = {}
            if isinstance(cur.get("info", {}).get("comment"), str) and cur["info"]["comment"]:
                req["comment"] = swap(cur["info"]["comment"])
            if isinstance(cur.get("announce"), str) and cur["announce"]:
                req["announce"] = [swap(cur["announce"])]
            if not req:
                req = {"comment": "edited"}
            edit_torrent(metafile, req)
            if os.path.getsize(metafile) == st0.st_size:
                os.utime(metafile, ns=(st0.st_atime_ns, st0.st_mtime_ns))
            with open(metafile, "rb") as fh:
                return {"status": "ok", "sig": sha1(fh.read()).hex()}
        if op == "rebuild":
            from torrentfile.rebuild import Assembler
            dest = os.path.join(scratch, "dest")
            os.makedirs(dest, exist_ok=True)
            # search directories: the content root itself, an empty directory, or a copy of r/a only
            search = os.path.join(base, "r")
            if route in ("empty", "part", "decoy"):
                search = os.path.join(scratch, "search-" + route)
                os.makedirs(search, exist_ok=True)
                if route == "decoy":       # same names, same sizes, other bytes: hashed, rejected, nothing placed
                    for key, comps in RELS.items():
                        p = fpath(base, key)
                        if os.path.isfile(p):
                            write_file(os.path.join(search, "wrong", *comps), content("sys/decoy/" + key, os.path.getsize(p), 7))
                if route == "part" and os.path.isfile(fpath(base, "r/a")):
                    shutil.copyfile(fpath(base, "r/a"), os.path.join(search, "a"))
            dest_arg = dest
            if route != "empty":
                # the destination is NAMED the same in every rebuild of a history (a "current" link that is re-pointed
                # to this step's directory): what the name resolved to earlier in the process is of no concern now
                dest_arg = os.path.join(os.path.dirname(scratch), "dest-current-" + os.path.basename(scratch)[-2:])
                if os.path.lexists(dest_arg):
                    os.remove(dest_arg)
                os.symlink(dest, dest_arg)
            asm = Assembler([metafile], [search], dest_arg)
            n = asm.assemble_torrents()
            return {"status": "ok", "sig": "%s/%s" % (n, snap_sig(dest))}
    except SystemExit as ex:
        return {"status": "exit:%s" % ex.code, "sig": ""}
    except Exception as ex:
        return {"status": "exc:" + type(ex).__name__, "sig": ""}
    return {"status": "unknown-op", "sig": ""}


def fresh(op, base, target, version, metafile, scratch, plen=1, alt=False, route="lib", align=False, cwd=None):
    """The same operation in a brand-new interpreter (started in `cwd` when paths are spelled relative to it)."""
    req = json.dumps({"op": op, "base": base, "target": target, "version": version, "metafile": metafile,
                      "scratch": scratch, "plen": plen, "alt": alt, "route": route, "align": align})
    env = dict(os.environ, PYTHONPATH=VERIF + os.pathsep + REPO, PYTHONDONTWRITEBYTECODE="1", VERIF_REPO=REPO)
    p = subprocess.run([sys.executable, "-c", "from vh.system import fresh_main; fresh_main()"], input=req.encode(),
                       stdout=subprocess.PIPE, stderr=subprocess.PIPE, env=env, timeout=120, cwd=cwd)
    line = p.stdout.decode().strip().splitlines()
    for ln in reversed(line):
        if ln.startswith("RESULT "):
            return json.loads(ln[7:])
    return {"status": "fresh-failed:%d" % p.returncode, "sig": p.stderr.decode()[-200:]}


def fresh_main():
    sys.path.insert(0, REPO)
    req = json.loads(sys.stdin.read())
    real = sys.stdout
    sys.stdout = open(os.devnull, "w")
    import logging
    logging.disable(logging.NOTSET)      # the code's own logging stays as the code configures it (it is process state too)
    sys.stderr = open(os.devnull, "w")
    res = do_op(req["op"], req["base"], req["target"], req["version"], req["metafile"], req["scratch"],
                req.get("plen", 1), req.get("alt", False), req.get("route", "lib"), req.get("align", False))
    sys.stdout = real
    print("RESULT " + json.dumps(res))


def run_history(case):
    sbx = new_sandbox("sy")
    recs = []
    cwd0 = os.getcwd()
    import logging
    logging.disable(logging.NOTSET)      # (workers mute INFO / DEBUG by default; here the logging configuration is part of
    try:                                 # the process state under test: a verbose call leaves it changed)
        base = os.path.join(sbx, "p")
        os.makedirs(os.path.join(base, "r", "d"))
        fs, gens = {}, {}
        for key, sz in case["init"].items():
            if sz >= 0:
                fs[key], gens[key] = sz, 0
                write_state(base, key, sz, 0)
        metas = {}          # target -> (path of the metafile, version)
        rid = case["id"] * 100
        n = 0
        # every other history spells the content paths relative to the directory the process works in (and the
        # fresh interpreters are started there): the working directory is process-lifetime state too
        opbase = base
        if case.get("rel"):
            os.chdir(base)
            opbase = "."
        for stp in case["steps"]:
            n += 1
            op = stp["op"]
            if op in ("addlink", "dellink"):
                # a dangling symbolic link below r/d (the listing of r and r/d raises while it is there)
                lp = os.path.join(base, "r", "d", "zz-dangling")
                if op == "addlink" and not os.path.lexists(lp):
                    os.symlink(os.path.join(base, "nowhere", "gone"), lp)
                elif op == "dellink" and os.path.lexists(lp):
                    os.remove(lp)
                continue
            if op in ("add", "delete", "grow", "shrink", "rewrite", "rewritekeep"):
                key = stp["file"]
                if op == "rewritekeep":
                    # in place: same inode, same length, modification time put back (rsync --inplace --times)
                    gens[key] = gens.get(key, 0) + 1
                    st0 = os.stat(fpath(base, key))
                    with open(fpath(base, key), "r+b") as fh:
                        fh.write(content("sys/" + key, SIZES[fs[key]], gens[key]))
                    os.utime(fpath(base, key), ns=(st0.st_atime_ns, st0.st_mtime_ns))
                elif op == "delete":
                    os.remove(fpath(base, key))
                    fs.pop(key, None)
                else:
                    if op == "rewrite":
                        gens[key] = gens.get(key, 0) + 1
                    fs[key] = stp["size"]
                    gens.setdefault(key, 0)
                    write_state(base, key, stp["size"], gens[key])
                continue
            target = stp["target"]
            scratch_in = os.path.join(sbx, "s%d-in" % n)
            scratch_fr = os.path.join(sbx, "s%d-fr" % n)
            os.makedirs(scratch_in)
            os.makedirs(scratch_fr)
            plen = stp.get("plen", 1)
            if op in ("create", "createfail"):
                version = stp["version"]
                # (every other history writes a target's metafile to ONE path again and again: what a process remembers
                # about a metafile path must not outlive the file that was there)
                mf_in = os.path.join(sbx, "o", "%s-%d.torrent" % (target.replace("/", "_"), n if case["id"] % 2 else 0))
                os.makedirs(os.path.dirname(mf_in), exist_ok=True)
                mf_fr = os.path.join(scratch_fr, "m.torrent")
            else:
                if target not in metas:
                    continue
                mf_in, version = metas[target]
                mf_fr = os.path.join(scratch_fr, "m.torrent")
                shutil.copyfile(mf_in, mf_fr)
            alt = stp["alt"] if "alt" in stp else (n + case["id"]) % 2 == 1
            route = stp.get("route", "lib") if op == "create" else stp.get("search", "own")
            align = bool(stp.get("align")) and op == "create"
            res_fr = fresh(op, opbase, target, version, mf_fr, scratch_fr, plen, alt, route, align,
                           cwd=base if case.get("rel") else None)
            res_in = do_op(op, opbase, target, version, mf_in, scratch_in, plen, alt, route, align)
            rec = {"id": rid + n, "group": "none", "sysop": op, "target": target, "version": version,
                   "status": res_in["status"], "sig": res_in["sig"], "fresh_status": res_fr["status"],
                   "fresh_sig": res_fr["sig"], "clauses": ["C09.fresh"]}
            if op == "create":
                root = tpath(base, target)
                rec.update({"op": "create", "align": align and version == 1, "P": P * plen, "single": target == "r/a",
                            "name": hexs(os.path.basename(root)), "outer": "", "creator": "history",
                            "disk": [{"path": [hexs(c) for c in comps], "size": sz}
                                     for comps, sz in alpha.disk_files(root)]})
                if res_in["status"] == "ok":
                    with open(mf_in, "rb") as fh:
                        raw = fh.read()
                    m = alpha.alpha_meta(raw, root)
                    m["rest_sig"], m["layers_sig"] = res_in["sig"], ""
                    m.setdefault("stream_len", -1)
                    rec["meta"] = m
                    metas[target] = (mf_in, version)
                    rec["clauses"] = ["C09.fresh", "C09.create"]
                else:
                    rec["meta"] = {"decodable": False}
                    rec["clauses"] = ["C09.fresh", "C09.create"]
            else:
                rec.update({"op": "sysop", "meta": {"decodable": False}})
            recs.append(rec)
            rm(scratch_in)
            rm(scratch_fr)
        return recs
    finally:
        os.chdir(cwd0)
        rm(sbx)
