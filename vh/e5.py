"""Engine E5 - piece length (C12)."""
from . import plen
from .engine import Prop


class C12(Prop):
    pid = "C12"
    engine = "E5-piece-length"
    runner = staticmethod(plen.run_plen)
    trace = ("TracePieceLength.tla", "Trace_PieceLength.cfg")
    group_key = "grp"
    design_ref = "DESIGN.md section 6 C12"
    level_text = ("TLC checks that the branch structure of normalize_piece_length refines the reference "
                  "Valid/Norm over a boundary domain (-3..70, 2^k and 2^k+-1 for k<=29, 3*2^k) - the pinned commit's "
                  "float log2 test is modelled as an oracle that may accept a non-power and is a must-fail variant - "
                  "and that the automatic choice is a power of two in [2^14, 2^24] and monotone at every threshold; "
                  "TLC then validates recorded calls (integers up to 2^64 as binary digit lists, strings) through the "
                  "function, library, CLI and configuration file, including what a create records.")
    rule = ("cases = every integer -3..70, 2^k+d (k<=64, d in -1,0,1), 3*2^k, multiples (thorough: every integer up "
            "to 2^17 and a seeded sample up to 2^40), strings (decimal, signed, spaced, non-ASCII digits, "
            "non-numeric) x route in {function, library, CLI, config}; automatic choice at 0..2^50 thresholds; "
            "distinct by (argument, route)")
    assumptions = ["integers are encoded as sign + binary digit list (a faithful encoding, no judgement)",
                   "creates for C12.recorded use accepted values up to 2^22 only (larger pieces allocate too much)"]

    def mc(self, tier):
        return [{"module": "PieceLength.tla", "cfg": "MC_PieceLength.cfg", "workers": 2,
                 "what": "normaliser branches (fixed) refine Valid/Norm; Auto power-of-two, bounded, monotone"},
                {"module": "PieceLength.tla", "cfg": "MC_PieceLength_code.cfg", "expect": "fail", "workers": 2,
                 "what": "pinned commit: float oracle / fall-through of 32..8192 must violate Refines"}]

    def cases(self, tier, rng):
        ints = set(range(-3, 71))
        for k in range(5, 65):
            for d in (-1, 0, 1):
                ints.add(2 ** k + d)
        for k in range(3, 41):
            ints.add(3 * 2 ** k)
            ints.add(5 * 2 ** k)
        ints.update([24576, 49152, 131071, 524287, 33554433, 10 ** 6, 10 ** 9, 2 ** 64 + 2 ** 14, 2 ** 80])
        if tier == "thorough":
            ints.update(range(71, 2 ** 18 + 2))
            ints.update(rng.randrange(2 ** 17, 2 ** 40) for _ in range(60000))
        else:
            ints.update(rng.randrange(71, 2 ** 26) for _ in range(300))
            ints.update(range(16380, 16390))
        strs = ["14", "25", "26", "29", "30", "13", "16384", "16385", "65536", "32", "8192", "0", "007", "014",
                "+14", "-14", " 14", "14 ", "1e4", "0x4000", "16k", "", "abc", "１４", "٢٠", "²", "１６３８４",
                "１４a", "14.0", "2**14", "１4",
                # a valid number followed by more words (units, remarks, a second number): not a number
                "16 KiB", "20 MiB", "18 pieces", "16384 bytes", "14 15", "18 ; 256 KiB", "18 # exponent", "32768\t#",
                "15,", "2^18", "16384.", "0b100000000000000", "0o40000", "18e0", "262144L"]
        out = []
        cl = ["C12.accept", "C12.reject", "C12.usable", "C12.optional"]
        for n in sorted(ints):
            out.append({"op": "norm", "x": {"kind": "int", "value": str(n)}, "via": "fn", "clauses": cl})
        for s in strs:
            out.append({"op": "norm", "x": {"kind": "str", "text": s}, "via": "fn", "clauses": cl})
        # routes that create a metafile
        clr = cl + ["C12.recorded"]
        small = [n for n in sorted(ints) if n < 2 ** 22 + 2 and (n < 200 or n.bit_length() > 13 or n in (32, 64, 1024, 8192, 4096))]
        if tier != "thorough":
            small = [n for n in small if n < 80 or bin(n).count("1") <= 2 or n % 7 == 0][:220]
        else:
            small = [n for n in small if n < 5000 or bin(n).count("1") <= 3 or n % 97 == 0]
        for n in small:
            for via in ("lib", "cli", "config", "interactive"):
                if via in ("config", "interactive") and n <= 0:
                    continue        # (an empty / non-positive answer means "not supplied" to the dialog)
                if via == "interactive" and n % 3:
                    continue
                x = {"kind": "int", "value": str(n)} if via == "lib" else {"kind": "str", "text": str(n)}
                if via != "lib" and n < 0:
                    continue      # "-3" after --piece-length is an option-like token for argparse
                out.append({"op": "norm", "x": x, "via": via, "version": 1 + (n % 3), "clauses": clr})
        for s in strs:
            if s == "":
                continue    # the empty string means "not supplied" (interactive mode: empty=auto)
            if s.strip() != s or s.startswith("-") or s.startswith("+"):
                vias = ("lib",)
            else:
                vias = ("lib", "cli", "config")
            for via in vias:
                out.append({"op": "norm", "x": {"kind": "str", "text": s}, "via": via, "clauses": clr})
        # a valid length given for a payload of tens of thousands of pieces: recorded as given, whatever the piece count
        for xs, size in (("14", 2 ** 29 + 1), ("16384", 2 ** 29 + 2 ** 14), ("15", 2 ** 30 + 5)):
            for via, ver in (("lib", 1), ("cli", 1), ("lib", 2)):
                if tier != "thorough" and (via, ver) == ("lib", 2) and xs != "14":
                    continue
                out.append({"op": "norm", "x": {"kind": "str", "text": xs}, "via": via, "version": ver, "payload_size": size,
                            "clauses": clr})
        # automatic choice, ascending sizes (monotonicity is judged along this order)
        sizes = {0, 1, 16384, 2 ** 50, 2 ** 50 - 1, 2 ** 40 + 1}
        for e in range(14, 26):
            for d in (-1, 0, 1):
                sizes.add(1000 * 2 ** e + d)
                sizes.add(1024 * 2 ** e + d)
        sizes.update(rng.randrange(0, 2 ** 50) for _ in range(20000 if tier == "thorough" else 300))
        autos = [{"op": "auto", "size": str(s), "clauses": ["C12.auto"]} for s in sizes]
        # the automatic choice as met through create: real (sparse) payloads around the first thresholds,
        # in several layouts (single file, directories, content behind symbolic links), same chain
        lays = ["single", "dir", "symdir", "symfile", "many"]
        n = 0
        for e in ((14, 15, 16) if tier == "thorough" else (14, 15)):
            for d in ((-1, 0, 1, 999) if tier == "thorough" else (0, 1)):
                for lay in lays:
                    n += 1
                    if tier != "thorough" and e == 15 and n % 2:
                        continue
                    autos.append({"op": "autocreate", "size": str(1000 * 2 ** e + d), "layout": lay,
                                  "version": 1 + n % 3, "via": "cli" if n % 4 == 0 else "lib", "clauses": ["C12.auto"]})
        for lay in lays:
            autos.append({"op": "autocreate", "size": str(50000 + len(lay)), "layout": lay, "version": 2, "via": "lib",
                          "clauses": ["C12.auto"]})
        # thousands of tiny files next to one big one: the same total gives the same choice
        for k, e in enumerate((15, 17) if tier != "thorough" else (15, 16, 17, 18)):
            autos.append({"op": "autocreate", "size": str(1000 * 2 ** e + 1), "layout": "crowd", "version": 1 + k % 3,
                          "via": "lib", "clauses": ["C12.auto"]})
        out += sorted(autos, key=lambda c: (int(c["size"]), c["op"] != "auto"))
        for c in out:
            c["grp"] = "auto" if c["op"] in ("auto", "autocreate") else "n"
        return out

    def corruptions(self, recs):
        import copy
        from .mutate import first
        out = []
        for r in first(recs, lambda r: r["op"] == "norm" and r["status"] == "plve" and r["x"]["denotes"]):
            m = copy.deepcopy(r)
            m["status"] = "accept"
            m["result"] = m["x"]["bits"]
            out.append((m, "C12.accept"))
        for r in first(recs, lambda r: r["op"] == "norm" and r["status"] == "accept" and r["x"]["plain"]):
            m = copy.deepcopy(r)
            m["status"] = "plve"
            out.append((m, "C12.usable"))
        for r in first(recs, lambda r: r["op"] == "auto"):
            m = copy.deepcopy(r)
            m["result"] = [1, 1]
            out.append((m, "C12.auto"))
        return out

    def records(self, cases, results):
        for r, c in zip(results, cases):
            r["grp"] = c["grp"]
        # keep the ascending order of the automatic-choice records inside one shard
        return results

    def nontrivial(self, case):
        if case["op"] == "auto":
            return ("auto", case["size"])
        if case["op"] == "autocreate":
            return ("autocreate", case["size"], case["layout"], case["version"], case["via"])
        return (case["via"], case["x"].get("value", case["x"].get("text")), case["x"]["kind"])

    def signature(self, case, rec, clause):
        if not case or case["op"] in ("auto", "autocreate"):
            return clause
        return "%s/%s" % (clause, case["via"])

    def sample(self, case, rec):
        return {"case": {k: v for k, v in case.items() if k != "clauses"},
                "status": rec.get("status") if rec else None}


PROPS = {"C12": C12}
