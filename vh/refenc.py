"""Independent, specification-conformant reference encoder for metafiles (BEP 3 / BEP 47 / BEP 52).

Used to produce "metafiles written by an independent conformant encoder" (C05, C11, C13, C19):
the *structure* is chosen by the case (possibly by TLC), this module only hashes and serialises
canonically.  Its output is itself validated by TLC against TraceCreate's reference clauses in
the self-check of the recheck engine.
"""
from .core import BLOCK, bencode, sha1, sha256

ZERO = bytes(32)


def _reduce(level):
    while len(level) > 1:
        level = [sha256(level[i] + level[i + 1]) for i in range(0, len(level), 2)]
    return level[0]


def _pow2(n):
    p = 1
    while p < n:
        p <<= 1
    return p


def v2_file(data, P, block=BLOCK):
    """(pieces root, piece layer bytes) of one non-empty file, as BEP 52 prescribes."""
    blocks = [sha256(data[i:i + block]) for i in range(0, len(data), block)]
    bpp = P // block
    if len(data) <= P:
        lv = blocks + [ZERO] * (_pow2(len(blocks)) - len(blocks))
        return _reduce(lv), b""
    pieces = []
    for k in range(0, len(blocks), bpp):
        lv = blocks[k:k + bpp]
        lv = lv + [ZERO] * (bpp - len(lv))
        pieces.append(_reduce(lv))
    zp = _reduce([ZERO] * bpp)
    lv = pieces + [zp] * (_pow2(len(pieces)) - len(pieces))
    return _reduce(lv), b"".join(pieces)


def v1_pieces(stream, P):
    return b"".join(sha1(stream[i:i + P]) for i in range(0, len(stream), P))


def build(name, files, P, version, single=False, order=None, pads="none", trailing_pad=False,
          extra_info=None, extra_top=None, block=BLOCK, attrs=False):
    """files: list of (components, bytes).  version 1|2|3.
    order: permutation (list of indexes) for the v1 list of a v1 torrent (default: as given);
    pads: "none" | "bep47" (v1 with padding entries);  trailing_pad: pad after the last file.
    v2 / hybrid use raw-byte sorted tree order, hybrids are always padded between files.
    attrs: regular files carry BEP 47 attr strings other than "p" ("x" executable, "h" hidden), as
    libtorrent-based tools write them - in the v1 list and in the file-tree leaves."""
    ATTR = ("x", "h", "hx")
    info = {"name": name, "piece length": P}
    top = {}
    if version in (2, 3):
        info["meta version"] = 2
        tree = {}
        layers = {}
        ordered = sorted(files, key=lambda f: [c.encode() for c in f[0]]) if not single else files
        for comps, data in ordered:
            node = tree
            parts = comps if not single else [name]
            for c in parts[:-1]:
                node = node.setdefault(c, {})
            leaf = {"length": len(data)}
            if attrs:
                leaf["attr"] = ATTR[len(data) % 3]
            if data:
                root, layer = v2_file(data, P, block)
                leaf["pieces root"] = root
                if len(data) > P:
                    layers[root] = layer
            node[parts[-1]] = {"": leaf}
        info["file tree"] = tree
        top["piece layers"] = layers
    else:
        ordered = [files[i] for i in order] if order else files
    if version in (1, 3):
        if single:
            info["length"] = len(files[0][1])
            if attrs:
                info["attr"] = "x"
            info["pieces"] = v1_pieces(files[0][1], P)
        else:
            flist, stream = [], bytearray()
            padded = version == 3 or pads == "bep47"
            for n, (comps, data) in enumerate(ordered):
                flist.append({"length": len(data), "path": list(comps)})
                if attrs:
                    flist[-1]["attr"] = ATTR[len(data) % 3]
                    flist[-1]["md5sum"] = "%032x" % (len(data) * 2654435761 % 2 ** 128)   # optional key, any 32 hex digits
                stream += data
                gap = (-len(data)) % P
                last = n == len(ordered) - 1
                if padded and gap and (not last or trailing_pad):
                    flist.append({"attr": "p", "length": gap, "path": [".pad", str(gap)]})
                    stream += bytes(gap)
            info["files"] = flist
            info["pieces"] = v1_pieces(bytes(stream), P)
    if extra_info:
        info.update(extra_info)
    top["info"] = info
    if extra_top:
        top.update(extra_top)
    return bencode(top)
