"""Observation map alpha (DESIGN.md section 3): real bytes -> symbolic values TLC can judge.

Nothing in here decides a property: digests are *named* by looking them up in tables of
generic hypotheses (slices of the declared stream, nodes of the zero-padded merkle tree);
structure, arithmetic and logic are left to the TLA+ trace specifications.
"""
import os

from .core import BLOCK, bdecode_strict, content, hexs, sha1, sha256, write_file

ZERO32 = bytes(32)


# ---------------------------------------------------------------------------------------------
# payload trees
# ---------------------------------------------------------------------------------------------
def tree_key(tree, f):
    if f.get("ckey"):          # files that share a content stream (one is a prefix of the other)
        return f["ckey"]
    return "/".join([tree["name"]] + list(f["path"]))


def materialize(tree, parent, seed=None):
    """Write the payload described by `tree` under directory `parent`; returns its root path."""
    root = os.path.join(parent, tree["name"])
    if tree.get("single"):
        f = tree["files"][0]
        write_file(root, content(tree_key(tree, f), f["size"], f.get("gen", 0), seed, f.get("mode", "rand")))
        return root
    os.makedirs(root, exist_ok=True)
    for d in tree.get("dirs", []):
        os.makedirs(os.path.join(root, *d), exist_ok=True)
    for f in tree["files"]:
        if "link_of" in f:
            continue
        write_file(os.path.join(root, *f["path"]),
                   content(tree_key(tree, f), f["size"], f.get("gen", 0), seed, f.get("mode", "rand")))
    if tree.get("ext_files"):      # files kept OUTSIDE the content root, reached through symbolic links
        ext = os.path.join(parent, "_ext_" + tree["name"])
        for f in tree["ext_files"]:
            write_file(os.path.join(ext, *f["path"]), content("ext/" + tree_key(tree, f), f["size"], 0, seed))
    for ln in tree.get("symlinks", []):
        dst = os.path.join(root, *ln["path"])
        os.makedirs(os.path.dirname(dst), exist_ok=True)
        if "ext" in ln:
            os.symlink(os.path.join(parent, "_ext_" + tree["name"], *ln["ext"]), dst)
        else:
            os.symlink(os.path.relpath(os.path.join(root, *ln["target"]), os.path.dirname(dst)), dst)
    for f in tree["files"]:
        if "link_of" in f:      # a second name for the same inode (hard link): still a regular file
            src = os.path.join(root, *tree["files"][f["link_of"]]["path"])
            dst = os.path.join(root, *f["path"])
            os.makedirs(os.path.dirname(dst), exist_ok=True)
            os.link(src, dst)
    return root


def disk_files(root):
    """Independent walk of the payload: [(components, size)] sorted by raw path bytes."""
    if os.path.isfile(root):
        return [([], os.path.getsize(root))]
    out = []
    # symbolic links are followed: what they lead to is part of the payload (harness trees have no link cycles)
    for dp, dns, fns in os.walk(root, followlinks=True):
        for fn in fns:
            p = os.path.join(dp, fn)
            comps = os.path.relpath(p, root).split(os.sep)
            out.append((comps, os.path.getsize(p)))
    out.sort(key=lambda x: [c.encode() for c in x[0]])
    return out


# ---------------------------------------------------------------------------------------------
# hypothesis tables
# ---------------------------------------------------------------------------------------------
def zero_nodes(maxh):
    z = [ZERO32]
    for _ in range(maxh):
        z.append(sha256(z[-1] + z[-1]))
    return z


def merkle_table(data, f, extra=3, table=None, block=BLOCK):
    """All nodes N(f,h,i) of the zero-padded merkle tree over the 16 KiB blocks of `data`
    that contain at least one real block, up to `extra` levels above the minimal root."""
    table = {} if table is None else table
    nb = (len(data) + block - 1) // block
    if nb == 0:
        return table
    maxh = max(1, (nb - 1).bit_length()) + extra
    z = zero_nodes(maxh + 1)
    level = [sha256(data[i * block:(i + 1) * block]) for i in range(nb)]
    for h in range(maxh + 1):
        for i, d in enumerate(level):
            table.setdefault(d, []).append(["N", f, h, i])
        nxt = []
        for i in range(0, len(level), 2):
            left = level[i]
            right = level[i + 1] if i + 1 < len(level) else z[h]
            nxt.append(sha256(left + right))
        level = nxt
    return table


def zero_table(maxh, P, table=None):
    table = {} if table is None else table
    for h, d in enumerate(zero_nodes(maxh)):
        table.setdefault(d, []).append(["Z", 0, h, 0])
    # what recheck's Padder produces (so that it is named rather than merely unknown)
    table.setdefault(sha256(bytes(P)), []).append(["ZP", 0, P, 0])
    return table


def stream_table(stream, P):
    """SHA-1 of every P-slice of `stream`, plain and zero-extended to P."""
    table = {}
    k = 0
    n = len(stream)
    while k * P < n:
        sl = stream[k * P:(k + 1) * P]
        table.setdefault(sha1(sl), []).append(["S", k, len(sl), 0])
        if len(sl) < P:
            table.setdefault(sha1(sl + bytes(P - len(sl))), []).append(["S", k, len(sl), P - len(sl)])
        k += 1
    return table


def split(b, n):
    return [bytes(b[i:i + n]) for i in range(0, len(b), n)]


# ---------------------------------------------------------------------------------------------
# metafile -> symbolic record
# ---------------------------------------------------------------------------------------------
def _keyseq(b):
    return list(b)


def dict_orders(node, label="top", out=None):
    """Key sequences of every dictionary as written (keys as byte lists: TLC compares)."""
    out = [] if out is None else out
    if node.kind == "dict":
        out.append({"level": label, "keys": [_keyseq(k.val) for k, _ in node.val]})
        for k, v in node.val:
            sub = k.val.decode("utf-8", "replace")
            if label.startswith("piece layers") or len(sub) > 24:
                sub = "*"
            dict_orders(v, label + "/" + sub, out)
    elif node.kind == "list":
        for i, v in enumerate(node.val):
            dict_orders(v, label + "[]", out)
    return out


def _walk_tree(node, prefix, leaves):
    """file tree as written -> leaves [(components, leafdict-node)] in written order."""
    if node.kind != "dict":
        return
    for k, v in node.val:
        if v.kind == "dict" and v.get(b"") is not None and k.val != b"":
            leaves.append((prefix + [k.val], v.get(b"")))
            # a directory that also has children besides "" is not expected; ignore
        elif v.kind == "dict":
            _walk_tree(v, prefix + [k.val], leaves)


def text(node):
    return hexs(node.val) if node is not None and node.kind == "str" else "none"


def strlist(node):
    """A bencoded list of strings (or of lists of strings) -> nested hex lists; a bare string is
    reported as such."""
    if node is None:
        return "none"
    if node.kind == "str":
        return {"str": hexs(node.val)}
    if node.kind == "list":
        return {"list": [strlist(x) for x in node.val]}
    return {"other": node.kind}


def alpha_meta(raw, payload_root=None, want_tables=True):
    """Symbolic view of a metafile.  payload_root: where the described payload lives on disk
    (file for single-file torrents, directory otherwise) so that digests can be named."""
    try:
        root, tokens_ok, problems = bdecode_strict(raw)
    except Exception as ex:  # not decodable at all
        return {"decodable": False, "problem": str(ex)}
    m = {"decodable": True, "tokens_ok": tokens_ok, "problems": problems[:3],
         "orders": dict_orders(root), "top_is_dict": root.kind == "dict"}
    if root.kind != "dict":
        return m
    info = root.get(b"info")
    m["has_info"] = info is not None and info.kind == "dict"
    m["top_keys"] = [hexs(k) for k in root.keys()]
    for key, name in ((b"announce", "announce"), (b"comment", "top_comment"),
                      (b"created by", "created_by")):
        m[name] = text(root.get(key))
    m["announce_list"] = strlist(root.get(b"announce-list"))
    m["url_list"] = strlist(root.get(b"url-list"))
    m["httpseeds"] = strlist(root.get(b"httpseeds"))
    cd = root.get(b"creation date")
    m["has_creation_date"] = cd is not None and cd.kind == "int"
    if not m["has_info"]:
        return m
    m["info_keys"] = [hexs(k) for k in info.keys()]
    span = raw[info.start:info.end]
    m["infohash1"] = sha1(span).hex()
    m["infohash2"] = sha256(span).hex()
    m["name"] = text(info.get(b"name"))
    pl = info.get(b"piece length")
    m["plen"] = pl.val if pl is not None and pl.kind == "int" and abs(pl.val) < 2 ** 31 else -1
    m["plen_big"] = str(pl.val) if pl is not None and pl.kind == "int" else "none"
    ln = info.get(b"length")
    m["length"] = ln.val if ln is not None and ln.kind == "int" else -1
    mv = info.get(b"meta version")
    m["meta_version"] = mv.val if mv is not None and mv.kind == "int" else -1
    pv = info.get(b"private")
    m["private"] = pv.val if pv is not None and pv.kind == "int" else -1
    m["source"] = text(info.get(b"source"))
    m["comment"] = text(info.get(b"comment"))
    P = m["plen"]

    # ---- v1 file list -------------------------------------------------------------------
    files = info.get(b"files")
    m["has_files"] = files is not None
    flist = []
    if files is not None and files.kind == "list":
        for e in files.val:
            if e.kind != "dict":
                flist.append({"path": [], "length": -1, "pad": False, "wf": False})
                continue
            p, ln2, attr = e.get(b"path"), e.get(b"length"), e.get(b"attr")
            comps = [c.val for c in p.val] if p is not None and p.kind == "list" and all(
                c.kind == "str" for c in p.val) else None
            flist.append({
                "path": [hexs(c) for c in comps] if comps is not None else [],
                "rawpath": comps,
                "length": ln2.val if ln2 is not None and ln2.kind == "int" else -1,
                "pad": attr is not None and attr.kind == "str" and b"p" in attr.val,
                "wf": comps is not None and ln2 is not None and ln2.kind == "int"})
    # ---- v1 pieces ------------------------------------------------------------------------
    pieces = info.get(b"pieces")
    m["has_pieces"] = pieces is not None
    m["pieces_len"] = len(pieces.val) if pieces is not None and pieces.kind == "str" else -1
    m["pieces"] = []
    if pieces is not None and pieces.kind == "str" and P > 0 and payload_root and want_tables:
        stream = bytearray()
        if files is None:
            if os.path.isfile(payload_root):
                with open(payload_root, "rb") as fh:
                    stream += fh.read()
        else:
            for e in flist:
                if not e["wf"]:
                    continue
                if e["pad"]:
                    stream += bytes(max(0, e["length"]))
                else:
                    fp = os.path.join(payload_root, *[c.decode("utf-8", "surrogateescape")
                                                      for c in e["rawpath"]]) if e["rawpath"] else payload_root
                    if os.path.isfile(fp):
                        with open(fp, "rb") as fh:
                            stream += fh.read()
        tab = stream_table(bytes(stream), P)
        m["pieces"] = [tab.get(h, []) for h in split(pieces.val, 20)]
        m["stream_len"] = len(stream)
    for e in flist:
        e.pop("rawpath", None)
    m["files"] = flist

    # ---- v2 file tree ---------------------------------------------------------------------
    ft = info.get(b"file tree")
    m["has_tree"] = ft is not None
    leaves = []
    rootbytes = []
    tab2 = {}
    if ft is not None and ft.kind == "dict":
        raw_leaves = []
        _walk_tree(ft, [], raw_leaves)
        single = files is None and ln is not None
        for idx, (comps, leaf) in enumerate(raw_leaves, 1):
            ln3 = leaf.get(b"length")
            pr = leaf.get(b"pieces root")
            rel = comps[1:] if False else comps
            disk = None
            if payload_root and want_tables:
                if single or os.path.isfile(payload_root):
                    disk = payload_root if len(comps) == 1 else None
                else:
                    disk = os.path.join(payload_root, *[c.decode("utf-8", "surrogateescape") for c in comps])
                if disk and os.path.isfile(disk):
                    with open(disk, "rb") as fh:
                        merkle_table(fh.read(), idx, table=tab2)
            leaves.append({"path": [hexs(c) for c in rel],
                           "length": ln3.val if ln3 is not None and ln3.kind == "int" else -1,
                           "has_root": pr is not None,
                           "root_len": len(pr.val) if pr is not None and pr.kind == "str" else -1,
                           "extra_keys": [hexs(k) for k in leaf.keys() if k not in (b"length", b"pieces root")]})
            rootbytes.append(pr.val if pr is not None and pr.kind == "str" else None)
        if P > 0:
            zero_table(24, P, tab2)
        for lf, rb in zip(leaves, rootbytes):
            lf["root"] = tab2.get(rb, []) if rb is not None else []
    m["leaves"] = leaves
    # ---- piece layers ---------------------------------------------------------------------
    plays = root.get(b"piece layers")
    m["has_layers"] = plays is not None
    m["layers_is_dict"] = plays is not None and plays.kind == "dict"
    layers = []
    if plays is not None and plays.kind == "dict":
        for k, v in plays.val:
            owners = [i for i, rb in enumerate(rootbytes, 1) if rb is not None and rb == k.val]
            hs = split(v.val, 32) if v.kind == "str" else []
            layers.append({"key_len": len(k.val), "owners": owners,
                           "val_len": len(v.val) if v.kind == "str" else -1,
                           "hashes": [tab2.get(h, []) for h in hs]})
    m["layers"] = layers
    return m
