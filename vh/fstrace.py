"""In-process filesystem observation and fault injection (used inside forked workers only).

* an audit hook (sys.addaudithook) logs every mutating filesystem operation, and DENIES any
  that would touch a path outside the allowed roots (guard for hostile metafiles, C19);
* write-mode file objects are wrapped so that write / close are logged too;
* a fault plan can make the n-th logged operation fail (OSError), be torn (short write) or
  kill the process (os._exit) - the op log is flushed to a file first.

Nothing here judges anything: it produces the op log the TLA+ trace specs evaluate.
"""
import builtins
import errno
import io
import json
import os
import sys

_state = {"on": False, "log": [], "roots": [], "deny_outside": True, "plan": None, "count": 0,
          "logfile": None, "denied": [], "installed": False, "suspend": 0}

CRASH_EXIT = 77
_real_open = io.open
_real_sendfile = getattr(os, "sendfile", None)
_real_write = os.write
_real_pwrite = getattr(os, "pwrite", None)

WRITE_FLAGS = os.O_WRONLY | os.O_RDWR | os.O_CREAT | os.O_TRUNC | os.O_APPEND


def _inside(path):
    try:
        rp = os.path.realpath(os.fspath(path))
    except Exception:
        return False
    for r in _state["roots"]:
        if rp == r or rp.startswith(r + os.sep):
            return True
    return False


def _flush_log():
    lf = _state["logfile"]
    if lf:
        fd = os.open(lf, os.O_WRONLY | os.O_CREAT | os.O_TRUNC, 0o644)
        _real_write(fd, json.dumps({"log": _state["log"], "denied": _state["denied"]}).encode())
        os.close(fd)


def _op(kind, path, path2=None, extra=None, pre=True):
    """Log one mutating operation (called BEFORE it happens) and apply the fault plan.
    Returns the fault to apply by the caller ("torn") or None."""
    st = _state
    st["count"] += 1
    n = st["count"]
    rec = {"n": n, "kind": kind, "path": os.fspath(path) if path is not None else "",
           "path2": os.fspath(path2) if path2 is not None else "", "extra": extra if extra is not None else -1}
    st["log"].append(rec)
    plan = st["plan"]
    if plan and plan["at"] == n:
        rec["fault"] = plan["kind"]
        if plan["kind"] == "crash":
            _flush_log()
            os._exit(CRASH_EXIT)
        if plan["kind"] == "eacces":
            raise PermissionError(errno.EACCES, "injected EACCES", rec["path"])
        if plan["kind"] == "enospc":
            raise OSError(errno.ENOSPC, "injected ENOSPC", rec["path"])
        if plan["kind"] in ("torn", "torncrash"):
            return plan["kind"]
    return None


def _mutating_open(mode, flags):
    if isinstance(mode, str) and any(c in mode for c in "wax+"):
        return True
    if isinstance(flags, int) and flags & (os.O_WRONLY | os.O_RDWR | os.O_CREAT | os.O_TRUNC | os.O_APPEND):
        return True
    return False


def _open_kind(mode, flags):
    m = mode if isinstance(mode, str) else ""
    f = flags if isinstance(flags, int) else 0
    if "w" in m or f & os.O_TRUNC:
        return "open_trunc"
    if "a" in m or f & os.O_APPEND:
        return "open_append"
    if "x" in m or f & os.O_EXCL:
        return "open_excl"
    if f & os.O_CREAT:
        return "open_create"          # creates the file when absent, keeps existing contents
    return "open_rw"


def _hook(event, args):
    st = _state
    if not st["on"] or st["suspend"]:
        return
    try:
        if event == "open":
            path, mode, flags = args[0], args[1], args[2]
            if isinstance(path, int) or path is None:
                return
            if not _mutating_open(mode, flags):
                return
            _check(path)
            _op(_open_kind(mode, flags), path)
        elif event in ("os.remove", "os.rmdir", "os.mkdir", "os.truncate", "os.chmod", "os.utime", "os.chown"):
            _check(args[0])
            _op(event[3:], args[0])
        elif event in ("os.rename", "os.link", "os.symlink"):
            _check(args[0])
            _check(args[1])
            kind = event[3:]
            if kind in ("rename", "link"):
                # the audit event fires BEFORE the system call: a rename / link across filesystems
                # is going to fail with EXDEV and changes nothing
                try:
                    d0 = os.stat(os.path.dirname(os.path.abspath(os.fspath(args[0]))) or ".").st_dev
                    d1 = os.stat(os.path.dirname(os.path.abspath(os.fspath(args[1]))) or ".").st_dev
                    if d0 != d1:
                        kind += "_xdev"
                except OSError:
                    pass
            _op(kind, args[0], args[1])
        elif event in ("shutil.copyfile", "shutil.move", "shutil.copytree"):
            # no operation of its own: the copy shows up as open / write (or sendfile) / close and
            # rename events, which are logged where they happen
            _check(args[1])
        elif event == "shutil.rmtree":
            _check(args[0])
            _op("rmtree", args[0])
    except OSError:
        raise


def _check(path):
    if isinstance(path, int) or path is None:
        return
    if _state["deny_outside"] and not _inside(path):
        p = os.fspath(path)
        if isinstance(p, bytes):
            p = p.decode("utf-8", "replace")
        _state["denied"].append(os.path.abspath(p))
        _state["log"].append({"n": -1, "kind": "denied", "path": os.path.abspath(p), "path2": "", "extra": -1})
        raise PermissionError(errno.EACCES, "verif guard: mutation outside the sandbox denied", p)


class _WFile:
    """Proxy of a write-mode file object: logs write/close, injects torn writes."""

    def __init__(self, real, path):
        object.__setattr__(self, "_real", real)
        object.__setattr__(self, "_path", path)
        object.__setattr__(self, "_closed_logged", False)

    def write(self, data):
        real = self._real
        if _state["on"] and not _state["suspend"] and isinstance(real, io.RawIOBase):
            # an unbuffered file object (buffering=0): one write(2) per call, straight to the file, and the call
            # may take fewer bytes than it was given - it then RETURNS the short count, it does not raise
            fault = _op("dwrite", self._path, extra=-1)
            rec = _state["log"][-1]
            rec["via"] = "oswrite"
            if fault in ("torn", "torncrash"):
                k = min(_state["plan"].get("k", 1), max(0, len(data) - 1))
                n = real.write(bytes(data)[:k])
                rec["extra"] = n
                if fault == "torncrash":
                    _flush_log()
                    os._exit(CRASH_EXIT)
                return n
            n = real.write(data)
            try:
                rec["extra"] = real.tell()
            except OSError:
                rec["extra"] = n
            return n
        if _state["on"] and not _state["suspend"]:
            fault = _op("write", self._path, extra=len(data))
            if fault in ("torn", "torncrash"):
                k = min(_state["plan"].get("k", 1), max(0, len(data) - 1))
                real.write(data[:k])
                real.flush()
                if fault == "torncrash":
                    _flush_log()
                    os._exit(CRASH_EXIT)
                raise OSError(errno.ENOSPC, "injected short write", self._path)
        return real.write(data)

    def writelines(self, lines):
        for chunk in lines:          # every chunk is a write of its own (logged, may be faulted)
            self.write(chunk)

    def close(self):
        if _state["on"] and not _state["suspend"] and not self._closed_logged:
            object.__setattr__(self, "_closed_logged", True)
            try:
                _op("close", self._path)
            except OSError:
                # a failing close means the final flush failed: the buffered data never reaches
                # the file (redirect the descriptor so that the later implicit flush goes nowhere)
                _state["suspend"] += 1
                try:
                    nul = os.open(os.devnull, os.O_WRONLY)
                    os.dup2(nul, self._real.fileno())
                    os.close(nul)
                except Exception:
                    pass
                finally:
                    _state["suspend"] -= 1
                raise
        return self._real.close()

    def __enter__(self):
        self._real.__enter__()
        return self

    def __exit__(self, *a):
        self.close()
        return False

    def __iter__(self):
        return iter(self._real)

    def __getattr__(self, name):
        return getattr(self._real, name)

    def __setattr__(self, name, value):
        setattr(self._real, name, value)


def _open(file, mode="r", *a, **kw):
    st = _state
    if st["on"] and not st["suspend"] and isinstance(mode, str) and any(c in mode for c in "wax+"):
        real = _real_open(file, mode, *a, **kw)      # audit hook logs / faults the open itself
        path = file
        if isinstance(file, int):          # os.fdopen / open(fd): name the file behind the descriptor
            try:
                path = os.readlink("/proc/self/fd/%d" % file)
            except OSError:
                path = "<fd:%d>" % file
        return _WFile(real, os.fspath(path) if not isinstance(path, str) else path)
    return _real_open(file, mode, *a, **kw)


def _sendfile(out_fd, in_fd, offset, count, *a, **kw):
    """os.sendfile writes straight to the descriptor (no user-space buffer): logged as a direct
    write ("dwrite") of the number of bytes actually transferred."""
    st = _state
    if st["on"] and not st["suspend"]:
        try:
            path = os.readlink("/proc/self/fd/%d" % out_fd)
        except OSError:
            path = "<fd:%d>" % out_fd
        fault = _op("dwrite", path, extra=-1)
        rec = st["log"][-1]
        rec["via"] = "sendfile"
        try:
            rec["src"] = os.readlink("/proc/self/fd/%d" % in_fd)     # whose bytes these are (a copy of another file)
        except OSError:
            rec["src"] = ""
        if fault in ("torn", "torncrash"):
            # the kernel takes part of the data, then the disk is full: the caller sees the error (sendfile has no
            # silent short count that shutil would not notice - it loops until 0)
            k = max(0, min(st["plan"].get("k", 1), count - 1 if count else 0))
            sent = _real_sendfile(out_fd, in_fd, offset, k, *a, **kw) if k else 0
            rec["extra"] = sent
            if fault == "torncrash":
                _flush_log()
                os._exit(CRASH_EXIT)
            raise OSError(errno.ENOSPC, "injected ENOSPC after a partial transfer", path)
        sent = _real_sendfile(out_fd, in_fd, offset, count, *a, **kw)
        rec["extra"] = sent
        return sent
    return _real_sendfile(out_fd, in_fd, offset, count, *a, **kw)


def _fd_target(fd):
    """Path of the regular file behind a descriptor if it lies inside the observed roots, else None."""
    try:
        path = os.readlink("/proc/self/fd/%d" % fd)
    except OSError:
        return None
    if not path.startswith("/") or path.endswith(" (deleted)"):
        return None
    for r in _state["roots"]:
        if path == r or path.startswith(r + os.sep):
            return path
    return None


def _write(fd, data):
    """os.write on a descriptor of an observed file: logged as a direct write.  `extra` is the file offset
    after the call (= bytes in the file for the usual write-from-the-start).  A "torn" fault is a SHORT COUNT:
    k bytes are written and k is returned - no error, exactly what write(2) may do on a nearly full disk or
    under a file size limit; the caller has to look at the return value."""
    st = _state
    if st["on"] and not st["suspend"]:
        path = _fd_target(fd)
        if path is not None:
            fault = _op("dwrite", path, extra=-1)
            rec = st["log"][-1]
            rec["via"] = "oswrite"
            if fault in ("torn", "torncrash"):
                k = min(st["plan"].get("k", 1), max(0, len(data) - 1))
                n = _real_write(fd, bytes(data)[:k])
                rec["extra"] = n
                if fault == "torncrash":
                    _flush_log()
                    os._exit(CRASH_EXIT)
                return n
            n = _real_write(fd, data)
            try:
                rec["extra"] = os.lseek(fd, 0, os.SEEK_CUR)
            except OSError:
                rec["extra"] = n
            return n
    return _real_write(fd, data)


def install():
    if not _state["installed"]:
        sys.addaudithook(_hook)
        builtins.open = _open
        io.open = _open
        if _real_sendfile is not None:
            os.sendfile = _sendfile
        os.write = _write
        _state["installed"] = True


def start(roots, plan=None, logfile=None, deny_outside=True):
    install()
    _state.update({"on": True, "log": [], "roots": [os.path.realpath(r) for r in roots], "plan": plan,
                   "count": 0, "logfile": logfile, "denied": [], "deny_outside": deny_outside, "suspend": 0})


def stop():
    _state["on"] = False
    return {"log": list(_state["log"]), "denied": list(_state["denied"])}


class suspended:
    """Context manager: harness's own file operations are not logged."""

    def __enter__(self):
        _state["suspend"] += 1

    def __exit__(self, *a):
        _state["suspend"] -= 1
        return False
