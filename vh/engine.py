"""Generic check pipeline: TLC model checking of the specification, execution of cases against
the code under test, TLC trace validation of what was recorded, evidence / replays / findings."""
import json
import os
import random
import sys
import time

from . import core
from .core import Machinery


class Prop:
    pid = "C00"
    level = "model_checking"
    trace = ("TraceCreate.tla", "Trace_Create.cfg")
    group_key = None
    timeout = 120
    assumptions = []
    rule = ""
    judge_timeout = 3000
    isolate = False
    engine = "E0"
    design_ref = "DESIGN.md section 6"
    technique = "TLA+ specification model-checked with TLC + TLC trace validation of executions of the real code"
    level_text = ""
    level_note = ("Trusted: TLC; hashlib; the strict bencode decoder and hypothesis tables of vh/alpha.py "
                  "(digests are named by table lookup, never judged in Python); collision-freeness of "
                  "SHA-1/SHA-256 on generated contents. Bounded: scaled-world model checking (B=2) and "
                  "boundary alphabets for the executed cases.")

    def mc(self, tier):
        return []

    def cases(self, tier, rng):
        raise NotImplementedError

    runner = None

    def records(self, cases, results):
        """Turn runner results into trace records (default: results are records)."""
        return results

    def signature(self, case, rec, clause):
        return clause

    def case_id(self, rec_id):
        """Map a trace-record id to the id of the case that produced it."""
        return rec_id

    def nontrivial(self, case):
        return json.dumps(case.get("key", case), sort_keys=True, default=str)

    def sample(self, case, rec):
        return {"case": {k: v for k, v in case.items() if k != "clauses"}}

    def extra_coverage(self, tier, cases, recs):
        return {}

    def corruptions(self, recs):
        """Non-vacuity of the trace specification: [(corrupted copy of a recorded record, clause that
        must now be reported as failing)].  Used by the self-test after every run."""
        return []


def run_tlapm(job):
    """Check a TLAPS proof module (spec/proofs/*.tla) in a scratch copy; every obligation must be proved."""
    import re
    import shutil
    import subprocess
    import tempfile
    t0 = time.time()
    d = tempfile.mkdtemp(prefix="vh-tlapm-")
    try:
        src = os.path.join(core.SPEC, "proofs", job["module"])
        shutil.copy(src, d)
        try:
            p = subprocess.run(["tlapm", job["module"]], cwd=d, stdout=subprocess.PIPE, stderr=subprocess.STDOUT, timeout=job.get("timeout", 900))
        except (OSError, subprocess.TimeoutExpired) as ex:
            raise Machinery("tlapm %s: %s" % (job["module"], ex))
        txt = p.stdout.decode(errors="replace")
        m = re.search(r"All (\d+) obligations? proved", txt)
        if p.returncode != 0 or not m:
            raise Machinery("tlapm %s: proof not accepted: %s" % (job["module"], txt.strip().splitlines()[-3:]))
        return {"module": "proofs/" + job["module"], "cfg": "-", "expect": "hold", "states": 0, "transitions": 0, "depth": 0,
                "violated": "", "wall_s": round(time.time() - t0, 1), "cmd": "tlapm " + job["module"],
                "what": job.get("what", "") + " (%s proof obligations, all proved)" % m.group(1)}
    finally:
        shutil.rmtree(d, ignore_errors=True)


def run_mc(prop, tier):
    out = []
    if os.environ.get("VERIF_SKIP_MC") and os.environ.get("VERIF_NO_EVIDENCE"):
        return out        # development aid (mutation analysis): conformance only, writes no evidence
    for job in prop.mc(tier):
        if job.get("tier") == "thorough" and tier != "thorough":
            continue
        if job.get("tool") == "tlapm":        # an unbounded proof checked by the TLA+ proof system
            out.append(run_tlapm(job))
            continue
        r = core.run_tlc(job["module"], job["cfg"], workers=job.get("workers", core.NCPU),
                         simulate=job.get("simulate"), depth=job.get("depth"),
                         seed=core.SEED if job.get("simulate") else None,
                         timeout=job.get("timeout", 1500), coverage=job.get("coverage", False),
                         xmx=job.get("xmx", "4g"), env=job.get("env"))
        what = "%s / %s" % (job["module"], job["cfg"])
        if job.get("expect", "hold") == "hold":
            core.tlc_must_hold(r, what)
        else:
            core.tlc_must_fail(r, what)
        # (an action that exists only for another variant of the module may be named as exempt by the job)
        zero = [a for a, (cnt, _) in r.coverage.items() if cnt == 0 and a not in job.get("coverage_exempt", ())]
        if job.get("coverage") and zero and job.get("expect", "hold") == "hold":
            raise Machinery("%s: actions never taken: %s" % (what, zero))
        out.append({"module": job["module"], "cfg": job["cfg"], "expect": job.get("expect", "hold"),
                    "states": r.distinct, "transitions": r.generated, "depth": r.depth,
                    "violated": r.violation or "", "wall_s": round(r.wall, 1), "cmd": r.cmd,
                    "what": job.get("what", "")})
    return out


def run_check(prop, tier, replay=None):
    t0 = time.time()
    pid = prop.pid
    rng = random.Random("%s/%d" % (pid, core.SEED))
    try:
        mc = [] if replay else run_mc(prop, tier)
        if replay:
            with open(replay) as f:
                rp = json.load(f)
            cases = rp["cases"]
        else:
            cases = prop.cases(tier, rng)
            # thorough: the seeded part of the generators is drawn again from further random streams; cases whose
            # identifying key was seen already are dropped (systematic families repeat, random picks do not)
            extra = int(os.environ.get("VERIF_THOROUGH_SEEDS", "3")) - 1 if tier == "thorough" else 0
            if extra > 0:
                seen = {json.dumps(prop.nontrivial(c), sort_keys=True, default=str) for c in cases}
                for k in range(extra):
                    more = prop.cases(tier, random.Random("%s/%d/extra%d" % (pid, core.SEED, k)))
                    for c in more:
                        key = json.dumps(prop.nontrivial(c), sort_keys=True, default=str)
                        if key == "null" or key in seen:
                            continue
                        seen.add(key)
                        c.pop("id", None)
                        gk = prop.group_key
                        if gk and c.get(gk) not in (None, "none"):
                            c[gk] = "%s-x%d" % (c[gk], k)        # groups of another stream are groups of their own
                        cases.append(c)
        for n, c in enumerate(cases):
            c.setdefault("id", n + 1)
        results = core.run_cases(type(prop).runner, cases, timeout=prop.timeout, isolate=prop.isolate)
        recs = prop.records(cases, results)
        mod, cfg = prop.trace
        # records may ask for another configuration of the same trace module (scaled world: B = 2)
        bycfg = {}
        for r in recs:
            bycfg.setdefault(r.pop("_cfg", cfg), []).append(r)
        fails, tstats = [], {"states": 0, "transitions": 0, "shards": 0, "cmd": ""}
        for c2, rs2 in bycfg.items():
            f2, t2 = core.judge(mod, c2, rs2, timeout=prop.judge_timeout, group_key=prop.group_key)
            fails += f2
            tstats = {"states": tstats["states"] + t2["states"], "transitions": tstats["transitions"] + t2["transitions"],
                      "shards": tstats["shards"] + t2["shards"], "cmd": tstats["cmd"] or t2["cmd"]}
    except core.Hang as ex:
        # the code under test did not come back on some cases.  Confirmed on the first of them, alone and with twice
        # the time, so that a loaded machine is not mistaken for a loop; a confirmed hang is a violation (no result is
        # not the right result), an unconfirmed one a machinery failure.
        first = ex.hung[0]["case"]
        try:
            again = core.run_cases(type(prop).runner, [first], timeout=2 * prop.timeout, procs=1)
        except core.Hang:
            again = None
        except Machinery as ex2:
            print("MACHINERY-FAILURE property=%s %s" % (pid, ex2))
            core.cleanup_tmproot()
            return 2
        core.cleanup_tmproot()
        if again is not None:
            print("MACHINERY-FAILURE property=%s %d case(s) exceeded the time limit of %d s but the first one returns when run "
                  "alone (machine overloaded?)" % (pid, len(ex.hung), prop.timeout))
            return 2
        group = None
        if prop.group_key and first.get(prop.group_key) not in (None, "none"):
            group = [c for c in cases if c.get(prop.group_key) == first.get(prop.group_key)]
        path = core.write_replay(pid, {"property": pid, "clause": pid + ".terminates", "signature": pid + ".terminates",
                                        "seed": core.SEED, "cases": group or [first], "record": None})
        print("VIOLATION property=%s replay=%s" % (pid, path))
        print("  clause=%s.terminates (the operation did not return within %d s, %d case(s) so far) case=%s" % (
            pid, 2 * prop.timeout, len(ex.hung), json.dumps({k: v for k, v in first.items() if k != "clauses"}, default=str)[:600]))
        return 1
    except Machinery as ex:
        print("MACHINERY-FAILURE property=%s %s" % (pid, ex))
        core.cleanup_tmproot()
        return 2
    # self-test of the binding: corrupt recorded fields, TLC must reject exactly those clauses
    selftest = {"mutations": 0, "rejected": 0}
    try:
        import copy
        muts = prop.corruptions(copy.deepcopy(recs))
        # a corruption only proves something when the clause HELD on the record it was derived from (on a tree that
        # breaks the property - or disagrees with a model - a "corrupted" copy may happen to be the right one)
        failed = {(i, c) for i, c, _ in fails}
        muts = [mu for mu in muts if not ((mu[2]["id"], mu[3]) in failed if mu[0] == "pair" else (mu[0]["id"], mu[1]) in failed)]
        if muts:
            mrecs, targets = [], []
            for k, mu in enumerate(muts):
                if mu[0] == "pair":          # (context record, corrupted record) of one group / history
                    _, ctx, mr, clause = mu
                    ctx["id"] = 10 ** 8 + 2 * k
                    ctx["clauses"] = []
                    mr["id"] = 10 ** 8 + 2 * k + 1
                    mr["clauses"] = [clause]
                    if prop.group_key:
                        ctx[prop.group_key] = mr[prop.group_key] = "selftest-%d" % k
                    mrecs += [ctx, mr]
                else:
                    mr, clause = mu
                    mr["id"] = 10 ** 8 + 2 * k + 1
                    mr["clauses"] = [clause]
                    if prop.group_key:
                        mr[prop.group_key] = "none"
                    mrecs.append(mr)
                targets.append(mr)
            mfails, _ = core.judge(mod, cfg, mrecs, timeout=prop.judge_timeout, group_key=prop.group_key)
            got = {(i, c) for i, c, _ in mfails}
            selftest["mutations"] = len(targets)
            selftest["rejected"] = sum(1 for r in targets if (r["id"], r["clauses"][0]) in got)
            if selftest["rejected"] != selftest["mutations"]:
                missing = [(r["clauses"][0]) for r in targets if (r["id"], r["clauses"][0]) not in got]
                raise Machinery("trace specification accepted %d corrupted record(s): clauses %s" % (
                    len(missing), sorted(set(missing))))
    except Machinery as ex:
        print("MACHINERY-FAILURE property=%s %s" % (pid, ex))
        core.cleanup_tmproot()
        return 2
    mf = [f for f in fails if f[1].startswith("M")]      # implementation-shaped model vs code: informational
    if mf:
        print("NOTE property=%s the implementation-shaped TLA+ model disagrees with the code on %d record(s) "
              "(not a property verdict), e.g. %s" % (pid, len(mf), mf[:3]))
    xf = [f for f in fails if f[1].startswith("X")]
    if xf:
        print("MACHINERY-FAILURE property=%s the harness's own model disagrees with reality (not a verdict): %s" % (
            pid, xf[:5]))
        for f in xf[:3]:
            print("   record: %s" % json.dumps(next((r for r in recs if r["id"] == f[0]), None))[:4000])
        core.cleanup_tmproot()
        return 2
    byid = {c["id"]: c for c in cases}
    recbyid = {}
    for r in recs:
        recbyid.setdefault(r["id"], r)
    known = [k for k in core.load_known() if k["property"] == pid and k["status"] == "open"]
    hit_known, violations = {}, []
    for ident, clause, _ in fails:
        if not clause.startswith(pid + "."):
            continue
        case, rec = byid.get(prop.case_id(ident)), recbyid.get(ident)
        sig = prop.signature(case, rec, clause)
        k = next((k for k in known if k["signature"] == sig), None)
        if k is not None:
            hit_known.setdefault(sig, (k, ident))
        else:
            violations.append((ident, clause, sig))
    for sig, (k, ident) in sorted(hit_known.items()):
        print("KNOWN-FINDING: property=%s %s [signature %s; e.g. case %s]" % (pid, k["what"], sig, ident))
    rc = 0
    seen = set()
    for ident, clause, sig in violations:
        if sig in seen:
            continue
        seen.add(sig)
        case = byid.get(prop.case_id(ident))
        group = None
        if prop.group_key and case is not None:
            g = case.get(prop.group_key)
            group = [c for c in cases if c.get(prop.group_key) == g]
        path = core.write_replay(pid, {"property": pid, "clause": clause, "signature": sig,
                                        "seed": core.SEED, "cases": group or [case],
                                        "record": recbyid.get(ident)})
        print("VIOLATION property=%s replay=%s" % (pid, path))
        print("  clause=%s signature=%s case=%s" % (clause, sig, json.dumps(
            {k: v for k, v in (case or {}).items() if k != "clauses"}, default=str)[:600]))
        rc = 1
    nontriv = set()
    for c in cases:
        k = prop.nontrivial(c)
        if k is not None:
            nontriv.add(k)
    samples = []
    for c in cases[:: max(1, len(cases) // 4)][:4]:
        samples.append(prop.sample(c, recbyid.get(c["id"]) or next((r for r in recs if prop.case_id(r["id"]) == c["id"]), None)))
    evaluated = sum(len([x for x in r.get("clauses", []) if x.startswith(pid + ".")]) for r in recs)
    cov = {
        "states": sum(m["states"] for m in mc if m["expect"] == "hold") + tstats["states"],
        "transitions": sum(m["transitions"] for m in mc if m["expect"] == "hold") + tstats["transitions"],
        "traces_validated_against_impl": len(recs),
        "samples": samples,
        "evaluations": len(cases),
        "clause_evaluations": evaluated,
        "distinct_nontrivial": len(nontriv),
        "rule": prop.rule,
        "model_checking": mc,
        "trace_validation": {"spec": "%s / %s" % prop.trace, "records": len(recs),
                             "tlc_states": tstats["states"], "shards": tstats["shards"],
                             "cmd": tstats["cmd"],
                             "failed_clauses_total": len(fails),
                             "failed_clauses_of_this_property": len([f for f in fails if f[1].startswith(pid + ".")])},
        "known_findings_matched": sorted(hit_known),
        "trace_spec_self_test": selftest,
        "impl_model_binding": {"records_compared": sum(1 for r in recs if any(c.startswith("M") for c in r.get("clauses", []))),
                               "disagreements": len(mf)},
        "exhaustive": False,
    }
    cov.update(prop.extra_coverage(tier, cases, recs))
    if not replay:
        core.write_evidence(pid, tier, prop.level, cov, time.time() - t0, len(seen), prop.assumptions)
    core.cleanup_tmproot()
    if rc == 0:
        print("OK property=%s tier=%s cases=%d records=%d mc_states=%d wall=%.1fs" % (
            pid, tier, len(cases), len(recs), sum(m["states"] for m in mc), time.time() - t0))
    return rc
