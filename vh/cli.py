"""Driver for C20: one option set through keywords, configuration file and command line."""
import os

from . import alpha
from .core import bdecode_strict, hexs, new_sandbox, rm, snapshot
from .create import rest_sig
from .edit import observe

VALS = {
    "A": ["http://t1.example/announce_1", "http://t2.example/an-nounce_2"],
    "W": ["http://w1.example/my_files/", "ftp://w2.example/x_y-z"],
    "H": ["http://h1.example/seed_a-b"],
    "S": "SRC_tag-1",
    "C": "a comment with spaces, under_scores and dash-es",
}


# CliArgv.tla's token universe -> real command lines
ARGV_VALS = {"a_1": "http://t1.example/announce_1", "a_2": "udp://t2.example:6969/an_nounce-2", "w_1": "http://w1.example/my_files/",
             "w_2": "ftp://w2.example/x_y-z", "h_1": "http://h1.example/seed_a-b", "s_1": "SRC_tag-1",
             "c_1": "a comment with spaces, under_scores and dash-es", "15": "15"}
ARGV_FLAGS = {"A": ("-a", "--announce", "--tracker"), "W": ("--web-seed",), "H": ("--http-seed",), "S": ("-s", "--source"),
              "C": ("-c", "--comment"), "L": ("--piece-length",), "O": ("-o", "--out"), "P": ("-p", "--private"), "G": ("--align",)}
ARGV_LONG = {"A": ("--announce", "--tracker"), "W": ("--web-seed",), "H": ("--http-seed",), "S": ("--source",),
             "C": ("--comment",), "L": ("--piece-length",), "O": ("--out",)}


def run_argv(case):
    """One command line of CliArgv.tla's universe through the real front end.  Observed: the namespace argparse
    hands to commands.create (captured at that boundary, then passed on) and the metafile that is written."""
    sbx = new_sandbox("av")
    try:
        tree = case["tree"]
        root = alpha.materialize(tree, os.path.join(sbx, "p"))
        odir = os.path.join(sbx, "o")
        os.makedirs(os.path.join(odir, "sub"))
        requested = os.path.join(odir, "sub", "req.torrent")
        k = case["id"]
        real = dict(ARGV_VALS, PATH=root, o_1=requested)
        back = {v: a for a, v in real.items()}
        argv, given = ["create"], {}
        for t in case["tokens"]:
            if t[0] == "flag":
                argv.append(ARGV_FLAGS[t[1]][k % len(ARGV_FLAGS[t[1]])])
            elif t[0] == "eq":
                argv.append("%s=%s" % (ARGV_LONG[t[1]][k % len(ARGV_LONG[t[1]])], real[t[2]]))
            else:
                argv.append(real[t[1]])
        argv += ["--prog", "0"]
        opts = {f: any(t[0] in ("flag", "eq") and t[1] == f for t in case["tokens"]) for f in "AWHPSCLVOG"}
        want_l = case["want_lists"]
        want = {"announce": [hexs(real[a]) for a in want_l["A"]], "urllist": [hexs(real[a]) for a in want_l["W"]],
                "httpseeds": [hexs(real[a]) for a in want_l["H"]], "source": hexs(real["s_1"]), "comment": hexs(real["c_1"]),
                "plen": 32768, "version": 1, "padneeded": not tree.get("single")}
        rec = {"id": case["id"], "op": "argv", "group": "none", "clauses": case["clauses"], "route": "argv",
               "opts": opts, "want": want, "status": "ok", "m": {"decodable": False, "has_info": False},
               "outfile_ok": False, "new_files": 0, "rest_sig": "", "shape": [], "tokens": case["tokens"],
               "ns": {"captured": False}}
        expected_out = requested if opts["O"] else os.path.join(odir, tree["name"] + ".torrent")
        before = snapshot(sbx)
        cwd = os.getcwd()
        os.chdir(odir)
        import torrentfile.commands as tc
        real_create = tc.create

        def spy(args):
            try:
                d = vars(args)
                atom = lambda x: back.get(x, "?") if isinstance(x, str) else "?"
                lst = lambda x: [atom(y) for y in x] if isinstance(x, (list, tuple)) else ([] if not x else ["?"])
                rec["ns"] = {"captured": True,
                             "lists": {"A": lst(d.get("announce")), "W": lst(d.get("url_list")), "H": lst(d.get("httpseeds"))},
                             "scalars": {"S": atom(d.get("source")) if d.get("source") is not None else "none",
                                         "C": atom(d.get("comment")) if d.get("comment") is not None else "none",
                                         "L": atom(str(d.get("piece_length"))) if d.get("piece_length") is not None else "none",
                                         "O": atom(d.get("outfile")) if d.get("outfile") is not None else "none"},
                             "switches": [f for f, key in (("P", "private"), ("G", "align")) if d.get(key)],
                             "content": atom(d.get("content")) if d.get("content") is not None else "none", "error": False}
            except Exception:
                pass
            return real_create(args)
        tc.create = spy
        try:
            from torrentfile.cli import execute
            execute(argv)
        except SystemExit as ex:
            rec["status"] = "exit:%s" % ex.code
        except Exception as ex:
            rec["status"] = "exc:" + type(ex).__name__
        finally:
            tc.create = real_create
            os.chdir(cwd)
        after = snapshot(sbx)
        rec["new_files"] = len([x for x in after if x not in before and after[x][0] == "f"])
        rec["outfile_ok"] = os.path.isfile(expected_out)
        if rec["status"] == "ok" and rec["outfile_ok"]:
            with open(expected_out, "rb") as fh:
                raw = fh.read()
            m = observe(raw)
            m["has_pad"] = False
            if m.get("decodable") and m.get("has_info"):
                rootn, _, _ = bdecode_strict(raw)
                files = rootn.get(b"info").get(b"files")
                m["has_pad"] = bool(files is not None and any(e.get(b"attr") is not None for e in files.val))
            rec["m"] = m
            rec["rest_sig"] = rest_sig(raw)
        return rec
    finally:
        rm(sbx)


def run_cli(case):
    if case.get("op") == "argv":
        return run_argv(case)
    sbx = new_sandbox("cl")
    try:
        tree, opts, route = case["tree"], case["opts"], case["route"]
        root = alpha.materialize(tree, os.path.join(sbx, "p"))
        odir = os.path.join(sbx, "o")
        os.makedirs(odir)
        name = tree["name"]
        P = case["plen"]
        v = case["version"] if opts["V"] else 1
        requested = os.path.join(odir, "sub", "req.torrent")
        os.makedirs(os.path.join(odir, "sub"))
        expected_out = requested if opts["O"] else os.path.join(odir, name + ".torrent")
        if case.get("out_slash") and opts["O"]:        # -o names a directory (trailing separator)
            requested = os.path.join(odir, "sub") + "/"
            expected_out = os.path.join(odir, "sub", name + ".torrent")
        VALS = dict(globals()["VALS"])
        if case.get("comment_val"):
            VALS["C"] = case["comment_val"]
        if case.get("source_val"):
            VALS["S"] = case["source_val"]
        if case.get("url_suffix"):
            for k in ("A", "W", "H"):
                VALS[k] = [u + case["url_suffix"] for u in VALS[k]]
        if case.get("url_upper"):       # addresses are opaque text: HTTP://Tracker.Example/ stays as typed on every route
            for k in ("A", "W", "H"):
                VALS[k] = [u.split("://", 1)[0].upper() + "://" + u.split("://", 1)[1].title() for u in VALS[k]]
        na = case.get("n_announce", 2)
        ann = VALS["A"][:na]
        want = {"announce": [hexs(x) for x in ann], "urllist": [hexs(x) for x in VALS["W"]],
                "httpseeds": [hexs(x) for x in VALS["H"]], "source": hexs(VALS["S"]), "comment": hexs(VALS["C"]),
                "plen": P, "version": v, "padneeded": bool(case.get("padneeded"))}
        rec = {"id": case["id"], "op": "cli", "group": case["group"], "clauses": case["clauses"], "route": route,
               "opts": opts, "want": want, "status": "ok", "m": {"decodable": False, "has_info": False},
               "outfile_ok": False, "new_files": 0, "rest_sig": "", "shape": case.get("shape", [])}
        before = snapshot(sbx)
        cwd = os.getcwd()
        os.chdir(odir)
        try:
            if route == "kw":
                kw = {"path": root, "progress": 0, "meta_version": str(v)}
                if v == 1 and not opts["V"] and case.get("kw_nover"):
                    del kw["meta_version"]        # not passed at all: the library's own default has to mean v1 too
                if opts["A"]:
                    # library callers may pass one tracker as a plain string
                    kw["announce"] = ann[0] if (case.get("kw_str") and len(ann) == 1) else list(ann)
                if opts["W"]:
                    kw["url_list"] = list(VALS["W"])
                if opts["H"]:
                    kw["httpseeds"] = list(VALS["H"])
                if opts["P"]:
                    kw["private"] = True
                if opts["S"]:
                    kw["source"] = VALS["S"]
                if opts["C"]:
                    kw["comment"] = VALS["C"]
                if opts["L"]:
                    kw["piece_length"] = case["plen_arg"]
                if opts["O"]:
                    kw["outfile"] = requested
                if opts["G"]:
                    kw["align"] = True
                import torrentfile.torrent as tt
                cls = tt.TorrentFile if v == 1 else tt.TorrentAssembler
                cls(**kw).write()
            elif route == "interactive":
                # the interactive front end: answers in the order the dialog asks for them
                answers = iter([
                    str(case["plen_arg"]) if opts["L"] else "",
                    " ".join(ann) if opts["A"] else "",
                    " ".join(VALS["W"]) if opts["W"] else "",
                    " ".join(VALS["H"]) if opts["H"] else "",
                    VALS["C"] if opts["C"] else "",
                    VALS["S"] if opts["S"] else "",
                    "y" if opts["P"] else "n",
                    root,
                    requested if opts["O"] else "",
                    str(v) if opts["V"] else "",
                ])
                import builtins
                real_input = builtins.input
                builtins.input = lambda *a: next(answers)
                try:
                    from torrentfile.interactive import InteractiveCreator
                    InteractiveCreator()
                finally:
                    builtins.input = real_input
            elif route == "config":
                lines = ["[config]"]
                # layouts of a list value that INI syntax allows: entries on indented lines, with a blank line
                # between them, or the first entry on the key's own line
                lay = case.get("config_layout", "plain")

                def listval(key, vals):
                    if lay == "blank":
                        return key + " =\n    " + "\n\n    ".join(vals)
                    if lay == "keyline":
                        return key + " = " + "\n    ".join(vals)
                    return key + " =\n    " + "\n    ".join(vals)
                if opts["A"]:
                    lines.append(listval(case.get("announce_key", "announce"), ann))
                if opts["W"]:
                    lines.append(listval("web-seed", VALS["W"]))
                if opts["H"]:
                    lines.append(listval("http-seed", VALS["H"]))
                if opts["P"]:
                    lines.append("private = true")
                elif case.get("explicit_false"):
                    lines.append("private = false")
                if opts["S"]:
                    lines.append("source = " + VALS["S"])
                if opts["C"]:
                    lines.append("comment = " + VALS["C"])
                if opts["L"]:
                    lines.append("piece-length = %s" % case["plen_arg"])
                if opts["V"]:
                    lines.append("meta-version = %d" % v)
                if opts["O"]:
                    lines.append("out = " + requested)
                if opts["G"]:
                    lines.append("align = true")
                elif case.get("explicit_false"):
                    lines.append("align = false")
                # where the file is: named with --config-path, or found in the documented default places
                where = case.get("config_where", "path")
                home = os.path.join(sbx, "home")
                ini = {"path": os.path.join(sbx, "cfg.ini"), "cwd": os.path.join(odir, "torrentfile.ini"),
                       "home": os.path.join(home, ".torrentfile", "torrentfile.ini"),
                       "homeconfig": os.path.join(home, ".config", ".torrentfile", "torrentfile.ini")}[where]
                os.makedirs(os.path.dirname(ini), exist_ok=True)
                with open(ini, "w", encoding="utf-8") as fh:
                    fh.write("\n".join(lines) + "\n")
                before = snapshot(sbx)
                from torrentfile.cli import execute
                home0 = os.environ.get("HOME")
                os.environ["HOME"] = home
                try:
                    execute(["create", "--config"] + (["--config-path", ini] if where == "path" else []) + ["--prog", "0", root])
                finally:
                    if home0 is None:
                        os.environ.pop("HOME", None)
                    else:
                        os.environ["HOME"] = home0
            else:
                groups = {
                    "A": [case.get("announce_flag", "-a")] + list(ann), "W": ["--web-seed"] + VALS["W"],
                    "H": ["--http-seed"] + VALS["H"], "P": ["-p"], "S": ["-s", VALS["S"]], "C": ["-c", VALS["C"]],
                    "L": ["--piece-length", str(case["plen_arg"])], "V": ["--meta-version", str(v)],
                    "O": ["-o", requested], "G": ["--align"], "PATH": [root], "PROG": ["--prog", "0"]}
                # "implicit": no command word at all (the front end then assumes create)
                if case.get("argform") == "eq":
                    # long options in their --flag=value spelling (argparse lets a list-valued flag take exactly one
                    # value that way, so lists of two keep the blank-separated form)
                    if len(ann) == 1:
                        groups["A"] = ["--%s=%s" % (("announce", "tracker")[case["id"] % 2], ann[0])]
                    groups.update({
                        "H": ["--http-seed=" + VALS["H"][0]],
                        "S": ["--source=" + VALS["S"]], "C": ["--comment=" + VALS["C"]],
                        "L": ["--piece-length=%s" % case["plen_arg"]], "V": ["--meta-version=%d" % v],
                        "O": ["--out=" + requested], "PROG": ["--prog=0"]})
                argv = list(case.get("pre", [])) + ([] if case.get("spelling") == "implicit" else [case.get("spelling", "create")])
                for g in case["shape"]:
                    argv += groups[g]
                if case.get("magnet_flag"):
                    argv += ["-m"]
                from torrentfile.cli import execute
                execute(argv)
        except SystemExit as ex:
            rec["status"] = "exit:%s" % ex.code
        except Exception as ex:
            rec["status"] = "exc:" + type(ex).__name__
        finally:
            os.chdir(cwd)
        after = snapshot(sbx)
        new = [k for k in after if k not in before]
        rec["new_files"] = len([k for k in new if after[k][0] == "f"])
        rec["outfile_ok"] = os.path.isfile(expected_out)
        if rec["status"] == "ok" and rec["outfile_ok"]:
            with open(expected_out, "rb") as fh:
                raw = fh.read()
            m = observe(raw)
            m["has_pad"] = False
            if m.get("decodable") and m.get("has_info"):
                rootn, _, _ = bdecode_strict(raw)
                files = rootn.get(b"info").get(b"files")
                m["has_pad"] = bool(files is not None and any(e.get(b"attr") is not None for e in files.val))
            rec["m"] = m
            rec["rest_sig"] = rest_sig(raw)
        return rec
    finally:
        rm(sbx)
