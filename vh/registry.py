"""Property id -> check class."""
from . import e1

PROPS = {}
PROPS.update(e1.PROPS)
