"""Property id -> check class; engines; properties not (yet) claimed."""
from . import e1, e2, e3, e4, e5, e6, e7, e8, e9

PROPS = {}
PROPS.update(e1.PROPS)
PROPS.update(e3.PROPS)
PROPS.update(e2.PROPS)
PROPS.update(e7.PROPS)
PROPS.update(e5.PROPS)
PROPS.update(e6.PROPS)
PROPS.update(e8.PROPS)
PROPS.update(e9.PROPS)
PROPS.update(e4.PROPS)

ENGINES = [
    {"name": "E4-rebuild", "path": "vh/e4.py", "serves_properties": ["C13", "C14", "C19"],
     "kind_free_text": "TLC model checking of MapPieces / FindMatches vs RebuildRef; rebuild scenarios with imposed candidate order under the filesystem tracer + guard; TLC trace validation (TraceRebuild.tla)"},
    {"name": "E9-option-routes", "path": "vh/e9.py", "serves_properties": ["C20"],
     "kind_free_text": "TLC model checking of Cli.tla (argparse greedy flags, recovery, config mapping) + TLC trace validation (TraceCli.tla) of route groups"},
    {"name": "E8-magnet", "path": "vh/e8.py", "serves_properties": ["C11"],
     "kind_free_text": "TLC model checking of MagnetRef (implementation-shaped magnet() vs reference) + TLC trace validation (TraceMagnet.tla) of URIs parsed with urllib"},
    {"name": "E6-histories", "path": "vh/e6.py", "serves_properties": ["C09"],
     "kind_free_text": "TLC model checking of System.tla (Memo cache model); TLC -simulate behaviours replayed in one interpreter vs fresh interpreters; TLC trace validation (TraceCreate.tla: C09 clauses)"},
    {"name": "E5-piece-length", "path": "vh/e5.py", "serves_properties": ["C12"],
     "kind_free_text": "TLC model checking of PieceLength (normaliser branches vs Valid/Norm, Auto) + TLC trace validation (TracePieceLength.tla) of recorded calls through function / library / CLI / config"},
    {"name": "E7-filesystem-effects", "path": "vh/e7.py", "serves_properties": ["C17", "C18"],
     "kind_free_text": "TLC model checking of EditFs / FsPolicy over the abstract filesystem FsModel; fault injection at every logged operation; TLC trace validation (TraceFs.tla) of operation logs"},
    {"name": "E2-writepath-edit", "path": "vh/e2.py", "serves_properties": ["C06", "C07"],
     "kind_free_text": "TLC model checking of EditModel (write path + edit semantics); TLC -simulate behaviours replayed into create/edit; TLC trace validation (TraceEdit.tla)"},
    {"name": "E3-recheck", "path": "vh/e3.py", "serves_properties": ["C04", "C05", "C16"],
     "kind_free_text": "TLC model checking of FeedChecker/HashChecker vs RecheckRef + TLC trace validation (TraceRecheck.tla) of recorded rechecks"},
    {"name": "E1-create-hashers", "path": "vh/e1.py", "serves_properties": ["C01", "C02", "C03", "C08", "C10", "C15"],
     "kind_free_text": "TLC model checking of HasherV1/HasherV2 + TLC trace validation (TraceCreate.tla) of recorded creates"},
]

ALL = ["C%02d" % i for i in range(1, 21)]
NOT_APPLICABLE = [{"property_id": p, "reason": "check not built yet in this round (planned in DESIGN.md section 6); not claimed until its TLA+ spec and trace binding exist"}
                  for p in ALL if p not in PROPS]
