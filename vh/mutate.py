"""Corruptions of recorded trace records (self-test of the trace specifications: a corrupted
field must make TLC report the clause that depends on it)."""


def first(recs, pred, n=3):
    out = []
    for r in recs:
        try:
            if pred(r):
                out.append(r)
        except (KeyError, IndexError, TypeError):
            pass
        if len(out) >= n:
            break
    return out
