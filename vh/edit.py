"""Driver for write path / edit histories (C06, C07): one history = create + edits, executed in
ONE process (a forked worker), the metafile observed after every step."""
import os

from . import alpha
from .core import bdecode_strict, hexs, new_sandbox, rm, sha1
from .create import create_meta

FIELDS = ["comment", "source", "private", "announce", "url-list", "httpseeds"]


def keytext(b):
    try:
        s = b.decode("ascii")
        if s.isprintable():
            return s
    except UnicodeDecodeError:
        pass
    return "0x" + b.hex()


def enc_text(node):
    return ["+", hexs(node.val)] if node is not None and node.kind == "str" else (["-"] if node is None else ["?"])


def enc_list(node):
    if node is None:
        return ["-"]
    if node.kind == "str":                      # BEP 19 allows a bare string: same as a 1-list
        return ["+", hexs(node.val)]
    if node.kind == "list" and all(x.kind == "str" for x in node.val):
        return ["+"] + [hexs(x.val) for x in node.val]
    return ["?"]


def enc_tiers(node):
    if node is None:
        return ["-"]
    if node.kind == "list" and all(t.kind == "list" and all(x.kind == "str" for x in t.val) for t in node.val):
        return ["+"] + [[hexs(x.val) for x in t.val] for t in node.val]
    return ["?"]


def observe(raw):
    """Symbolic view of a metafile for the edit trace spec."""
    m = alpha.alpha_meta(raw, None, want_tables=False)
    if not m.get("decodable") or not m.get("top_is_dict") or not m.get("has_info"):
        m.setdefault("top_is_dict", False)
        m["has_info"] = m.get("has_info", False)
        return m
    root, _, _ = bdecode_strict(raw)
    info = root.get(b"info")
    m["top"] = [[keytext(k.val), sha1(raw[v.start:v.end]).hex()] for k, v in root.val]
    m["info"] = [[keytext(k.val), sha1(raw[v.start:v.end]).hex()] for k, v in info.val]
    m["comment"] = enc_text(info.get(b"comment"))
    m["source"] = enc_text(info.get(b"source"))
    pv = info.get(b"private")
    m["private"] = ["-"] if pv is None else (["+", str(pv.val)] if pv.kind == "int" else ["?"])
    m["announce"] = enc_text(root.get(b"announce"))
    m["announce_list"] = enc_tiers(root.get(b"announce-list"))
    m["url_list"] = enc_list(root.get(b"url-list"))
    m["httpseeds"] = enc_list(root.get(b"httpseeds"))
    m["plen_ok"] = m["plen_big"] != "none" and int(m["plen_big"]) > 0
    for k in ("pieces", "files", "leaves", "stream_len", "url_list_raw"):
        m.pop(k, None)
    m["layers"] = [{"key_len": la["key_len"], "val_len": la["val_len"]} for la in m.get("layers", [])]
    return m


def concrete(step, field, form, dups=0):
    """Concrete value for a symbolic request form (distinct per step; reserved / non-ASCII chars).
    dups: the list holds entries that are equal / differ only in letter case / only by a trailing slash (the value
    written is the list as given - the tool has no business deciding which URLs mean the same)."""
    if field == "comment":
        return "c%d é&=%%+# x" % step
    if field == "source":
        return "src%d" % step
    if field == "private":
        return True
    base = {"announce": "http://t%d.example/announce?a=1&b=%%20", "url-list": "http://w%d.example/ü/",
            "httpseeds": "http://h%d.example/seed"}[field] % step
    if form == "s2" and dups:
        return [[base, base], [base + "/Key", base + "/key", base + "/KEY"], [base + "/dir", base + "/dir/", base + "/dir"],
                [base + "/2", base, base + "/2"]][(dups - 1) % 4]
    if form == "s2":
        return [base, base + "/2"]
    return [base]


def _current(path, field):
    """The (first) value the metafile holds for an editable field right now, as text; None if it has none."""
    try:
        with open(path, "rb") as fh:
            rootn, _, _ = bdecode_strict(fh.read())
        node = rootn.get(b"info").get(field.encode()) if field in ("comment", "source") else rootn.get(field.encode())
        if node is None:
            return None
        if node.kind == "str":
            return node.val.decode("utf-8")
        if node.kind == "list" and node.val and node.val[0].kind == "str":
            return node.val[0].val.decode("utf-8")
    except Exception:
        pass
    return None


def _first_tier(path):
    """The URLs of the first tier of announce-list as text, or None."""
    try:
        with open(path, "rb") as fh:
            rootn, _, _ = bdecode_strict(fh.read())
        al = rootn.get(b"announce-list")
        if al is not None and al.kind == "list" and al.val and al.val[0].kind == "list":
            return [x.val.decode("utf-8") for x in al.val[0].val if x.kind == "str"] or None
    except Exception:
        pass
    return None


def run_history(case):
    sbx = new_sandbox("ed")
    recs = []
    cwd0 = os.getcwd()
    try:
        tree = case["tree"]
        root = alpha.materialize(tree, os.path.join(sbx, "p"))
        if case.get("file_meta"):        # executable / read-only / private permission bits on the payload files
            k = 0
            for dp, dns, fns in os.walk(root):
                for fn in sorted(fns):
                    if not os.path.islink(os.path.join(dp, fn)):
                        k += 1
                        os.chmod(os.path.join(dp, fn), (0o755, 0o600, 0o444, 0o775, 0o711)[k % 5])
        from .core import odd_meta
        mdir, mname = odd_meta(case)
        os.makedirs(os.path.join(sbx, mdir))
        out = os.path.join(sbx, mdir, mname)
        opts = {}
        for f in case["present"]:
            v = concrete(0, f, "s1")
            if f == "announce":
                opts["announce"] = v
            elif f == "url-list":
                opts["url_list"] = v
            elif f == "httpseeds":
                opts["httpseeds"] = v
            else:
                opts[f] = v
        v = case["version"]
        creator = case.get("creator") or ("TorrentFile" if v == 1 else "TorrentAssembler")
        st = create_meta({"creator": creator, "version": v, "P": case["P"], "opts": opts, "align": bool(case.get("align"))}, root, out)
        base = {"group": case["group"], "version": v}
        rid = case["id"] * 100
        if st != "ok" or not os.path.isfile(out):
            recs.append(dict(base, id=rid, op="open", status="create:" + st, clauses=case["open_clauses"],
                             meta={"decodable": False}, refusable=bool(case.get("refusable"))))
            return recs
        with open(out, "rb") as fh:
            raw = fh.read()
        decodable = True
        try:
            bdecode_strict(raw)
        except Exception:
            decodable = False       # what was just written is not bencoding: the record of this step says so
        if case.get("extra_keys") and decodable:
            # as if written by another tool: keys this tool never writes, at the top level and in info
            from .core import bencode
            rootn, _, _ = bdecode_strict(raw)
            d = rootn.py()
            d[b"x-top"] = {b"b": 1, b"a": [b"x", 2 ** 40]}
            d[b"nodes"] = [[b"n.example", 6881]]
            d[b"info"][b"x-info"] = b"kept"
            # written by an older release of this tool / by a tool with a similar stamp, long ago
            d[b"created by"] = (b"torrentfile_v0.8.11", b"torrentfile_v0.0.1-dev", b"torrentfile-rs 2.1")[(case["id"] // 4) % 3]
            d[b"creation date"] = 1500000000
            d[b"info"][b"aaa-first"] = 7
            # a non-ASCII text key next to a key that is not valid UTF-8, in one dictionary (top level and info)
            for dd in (d, d[b"info"]):
                dd["\u0438\u0437\u0434\u0430\u0442\u0435\u043b\u044c".encode()] = b"publisher"
                dd[b"\xe9diteur"] = b"latin-1 key"
            if b"private" not in d[b"info"] and case.get("foreign_private"):
                d[b"info"][b"private"] = 0          # "not private", spelled out as other tools do
            fl = d[b"info"].get(b"files")
            if fl:
                fl[0][b"attr"] = b"x"               # executable flag on a regular file (BEP 47)
                fl[-1][b"md5sum"] = b"0123456789abcdef0123456789abcdef"
            if b"url-list" not in d:
                d[b"url-list"] = b"http://single.example/seed"      # BEP 19: a single string
            if b"announce" not in d and b"announce-list" not in d and case.get("foreign_private"):
                d[b"announce-list"] = [[b"http://only-list.example/a"], [b"udp://second.example:1/a"]]   # tiers, no announce
            if case.get("list_only"):        # one tier of two trackers and NO announce key (legal: BEP 12 readers use the list)
                d.pop(b"announce", None)
                d[b"announce-list"] = [[b"http://tier.example/a", b"udp://tier.example:2/b"]]
            raw = bencode(d)
            with open(out, "wb") as fh:
                fh.write(raw)
        recs.append(dict(base, id=rid, op="open", status="ok", clauses=case["open_clauses"], meta=observe(raw),
                         refusable=bool(case.get("refusable"))))
        from torrentfile.edit import edit_torrent
        from torrentfile.cli import execute
        abs_out = out
        if case.get("rel_paths"):
            os.chdir(os.path.dirname(os.path.dirname(out)))
            out = os.path.relpath(out)
        for n, stp in enumerate(case["steps"], 1):
            req, entry = stp["req"], stp["entry"]
            want = {"comment": "", "source": "", "announce": [""], "urllist": [], "httpseeds": []}
            args, argv = {}, ["edit", out]
            for f in FIELDS:
                form = req[f]
                key = {"url-list": "urllist"}.get(f, f)
                if form == "u":
                    args[f] = None
                    continue
                if form == "c":
                    args[f] = ""
                    if f in ("comment", "source"):
                        argv += ["--" + f, ""]
                    continue
                val = concrete(n, f, form, stp.get("dups", 0))
                if form == "k":         # the (first) value the field holds right now
                    cur = _current(out, f)
                    if cur is not None:
                        val = cur if f in ("comment", "source") else [cur]
                    if f == "announce" and stp.get("tier"):      # ... exactly the trackers of the existing first tier
                        tier0 = _first_tier(out)
                        if tier0:
                            val = tier0
                if f in ("comment", "source"):
                    want[key] = hexs(val)
                    args[f] = val
                    argv += ["--" + f, val]
                elif f == "private":
                    args[f] = True
                    argv += ["--private"]
                else:
                    want[key] = [hexs(x) for x in val]
                    # library callers may pass a plain string for a single value
                    args[f] = val[0] if (form in ("s1", "k") and stp.get("strform")) else list(val)
                    argv += [{"announce": "--tracker", "url-list": "--web-seed", "httpseeds": "--http-seed"}[f]] + list(val)
            status = "ok"
            twin_path, pre_raw = None, None
            if stp.get("twin") and entry == "cli":      # the same invocation names an identical second metafile
                twin_path = os.path.join(os.path.dirname(abs_out), "twin-of-" + os.path.basename(abs_out))
                with open(abs_out, "rb") as fh:
                    pre_raw = fh.read()
                with open(twin_path, "wb") as fh:
                    fh.write(pre_raw)
                argv = argv[:2] + [twin_path if not case.get("rel_paths") else os.path.relpath(twin_path)] + argv[2:]
            try:
                if entry == "cli":
                    execute(argv)
                else:
                    edit_torrent(out, args)
            except SystemExit as ex:
                status = "exit:%s" % ex.code
            except Exception as ex:
                status = "exc:" + type(ex).__name__
            meta = {"decodable": False}
            if os.path.isfile(out):
                with open(out, "rb") as fh:
                    meta = observe(fh.read())
            else:
                status = status if status != "ok" else "nofile"
            rec = dict(base, id=rid + n, op="edit", status=status, entry=entry, req=req, want=want,
                       clauses=case["edit_clauses"], meta=meta)
            if twin_path is not None:
                raw1 = open(abs_out, "rb").read() if os.path.isfile(abs_out) else b""
                raw2 = open(twin_path, "rb").read() if os.path.isfile(twin_path) else b""
                rec["twin"] = {"same_as_first": raw1 == raw2, "unchanged": raw2 == pre_raw, "first_unchanged": raw1 == pre_raw}
                rec["clauses"] = ["C07.twin"] if "C07.status" in case["edit_clauses"] else []
                os.remove(twin_path)
            recs.append(rec)
        return recs
    finally:
        os.chdir(cwd0)
        rm(sbx)
