"""Engine E3 - recheck: C04, C05, C16."""
from . import recheck
from .core import BLOCK
from .e1 import SHAPES, alphabet, mk_tree
from .engine import Prop

B = BLOCK

SRCS = {1: ["own", "ref", "ref_unsorted", "ref_bep47"], 2: ["own", "ref"], 3: ["own", "ref", "ref_trailing"]}


def damage_options(size, P):
    """All single damages applicable to a file of `size` bytes."""
    if size <= 0:
        return [("remove", 0)]
    opts = [("remove", 0)]
    offs = {0, size - 1}
    for k in range(1, size // P + 1):
        for o in (k * P - 1, k * P):
            if 0 <= o < size:
                offs.add(o)
    opts += [("flip", o) for o in sorted(offs)]
    tr = {0, 1, B, size - 1}
    for k in range(1, size // P + 1):
        tr.update((k * P - 1, k * P, k * P + 1))
    opts += [("trunc", n) for n in sorted(tr) if 0 <= n < size]
    opts.append(("rmdir", 0))       # the whole top-level directory that holds the file disappears (the file itself if it has none)
    opts.append(("wrong", 0))       # same length, every byte different (swapped with another file, shifted by an inserted byte)
    opts.append(("dangling", 0))    # replaced by a symbolic link that leads nowhere
    return opts


def pick_tree(rng, P, allow_single=True):
    A = alphabet(P)
    shapes = ["D2", "D3", "D4", "D1", "D2n", "DN", "DNf", "DU", "D5", "DNFC", "DS", "DM", "DX", "DSYM", "DEXT", "DPAD", "DP"] + (["S1"] if allow_single else [])
    while True:
        sh = rng.choice(shapes)
        k = 1 if sh == "S1" else len(SHAPES[sh])
        sizes = tuple(rng.choice(A) for _ in range(k))
        real = [s_ for s_, p_ in zip(sizes, SHAPES[sh] or [[]]) if not (p_ and p_[0] == "@ext")]
        if sum(real) > 0 and sum(sizes) < 1300000:
            return sh, sizes


def big_piece_cases(self, rng, clauses, damages):
    """Piece lengths of 1 / 2 / 4 MiB (the automatic choice for large payloads): a few cases each."""
    out = []
    M = 2 ** 20
    for P, sizes_list in ((M, [(M + 5, 3)]), (2 * M, [(3 * M,), (2 * M + 1, 5), (M, 2 * M - 1)]), (4 * M, [(5 * M + 1,)])):
        for sizes in sizes_list:
            sh = "S1" if len(sizes) == 1 else "D2"
            for v in (1, 2, 3):
                for src in ("own", "ref"):
                    for dmg in damages:
                        c = self.mk(rng, P, v, src, 0, clauses, tree=(sh, sizes), route="lib")
                        c["damage"] = [dict(d, arg=min(d["arg"], sizes[d["file"]] - 1)) for d in dmg if d["file"] < len(sizes)]
                        out.append(c)
    return out


def foreign_plen_cases(self, rng, clauses, dmg):
    """v1 metafiles of other tools may carry ANY positive piece length (BEP 3): not a power of two, below 16 KiB,
    larger than the payload."""
    out = []
    for P in (1000, 4096, 8192, 49152, 3 * B + 1, 2 ** 21):
        for sh, sizes in (("S1", (5 * B + 3,)), ("D3", (B + 1, 7, 3 * B)), ("D2", (70000, 0))):
            for src in ("ref", "ref_unsorted"):
                if sh == "S1" and src != "ref":
                    continue
                for d in range(dmg[0], dmg[1] + 1):
                    c = self.mk(rng, P, 1, src, d, clauses, tree=(sh, sizes), route=("lib", "cli")[(P + d) % 2])
                    if c["tree"].get("single"):     # (a missing root is not a recheck: see cases())
                        c["damage"] = [x for x in c["damage"] if x["kind"] not in ("remove", "rmdir", "dangling")]
                    out.append(c)
    return out


def periodic_cases(self, rng, clauses):
    """Payloads in which every byte equals the byte one piece length earlier (a constant non-zero fill, identical
    64-byte records), cut short after at least one whole piece: whatever a checker still holds from the piece
    before is exactly what went missing."""
    out = []
    for v in (1, 2, 3):
        for pat in ("const", "period"):
            for P in (B, 2 * B):
                for sh, sizes in (("S1", (3 * P + 5,)), ("D2", (2 * P, P + 7)), ("D2", (P + 1, 2 * P)), ("D3", (P, 5, 2 * P + 64))):
                    for f in range(len(sizes)):
                        for n in sorted({P, P + 1, 2 * P, sizes[f] - 1, sizes[f] - 64}):
                            if not 0 < n < sizes[f]:
                                continue
                            c = self.mk(rng, P, v, "own", 0, clauses, tree=(sh, sizes), route="lib")
                            for ff in c["tree"]["files"]:
                                ff["mode"] = pat
                            c["damage"] = [{"file": f, "kind": "trunc", "arg": n}]
                            out.append(c)
    return out


def linked_member_cases(self, rng, clauses):
    """Two members of equal length whose contents differ at every byte; one of them is replaced by a hard link of the
    other (in either direction): the replaced member is damaged, however the checker gets to its bytes."""
    out = []
    for v in (1, 2, 3):
        for P in (B, 2 * B):
            for sz in (3 * P + 5, P, 700):
                for victim, donor in ((1, 0), (0, 1), (2, 0)):
                    c = self.mk(rng, P, v, "own" if (v + victim) % 2 else "ref", 0, clauses, tree=("D3", (sz, sz, sz)), route="lib")
                    fs = c["tree"]["files"]
                    fs[donor]["ckey"] = "linked/" + "/".join(fs[victim]["path"])
                    fs[victim]["ckey"] = fs[donor]["ckey"]
                    fs[donor]["mode"] = "xl"
                    c["damage"] = [{"file": victim, "kind": "linkto", "arg": donor}]
                    out.append(c)
    return out


def u8_digest_cases(self, rng, clauses):
    """A one-piece v1 payload whose piece hash happens to be well-formed UTF-8 (found by search: about one content in
    140 000): the metafile decoder returns such a string as text."""
    out = []
    for src in ("own", "ref"):
        for route in ("lib", "cli"):
            for mode in ("root", "parent"):
                c = self.mk(rng, B, 1, src, 0, clauses, tree=("S1", (14,)), route=route, path_mode=mode)
                c["tree"]["files"][0]["mode"] = "u8sha1"
                out.append(c)
    return out


def twin_member_cases(self, rng, clauses):
    """Members whose names differ only in letter case or normalisation form AND hold the same bytes; one of them is
    removed (or truncated): the twin that is still there is not the missing member."""
    out = []
    for v in (1, 2, 3):
        for sh in ("DTW", "DC"):
            for src in ("own", "ref"):
                n = len(SHAPES[sh])
                for victim in range(n):
                    P = (B, 2 * B)[(v + victim) % 2]
                    sz = (P + 5, 2 * P, 700)[victim % 3]
                    c = self.mk(rng, P, v, src, 0, clauses, tree=(sh, (sz,) * n), route=("lib", "cli")[victim % 2])
                    for f in c["tree"]["files"]:
                        f["ckey"] = "twins"
                    c["damage"] = [{"file": victim, "kind": ("remove", "remove", "trunc")[(victim + v) % 3], "arg": 0}]
                    out.append(c)
    return out


def missing_dir_cases(self, rng, clauses):
    """A whole directory of the payload is gone while siblings whose names merely START like the directory's
    name (disc1 / disc10 / disc1.nfo, a / a.b / a0) are intact."""
    out = []
    for v in (1, 2, 3):
        for src in ("own", "ref"):
            for sh, which in (("DP", 0), ("DP", 2), ("DP", 4), ("D3", 1), ("D4", 0), ("D2n", 0)):
                P = (B, 2 * B)[(v + which) % 2]
                A = [a for a in alphabet(P) if 0 < a <= 3 * P + B + 1]
                c = self.mk(rng, P, v, src, 0, clauses, tree=(sh, tuple(rng.choice(A) for _ in SHAPES[sh])), route="lib")
                c["damage"] = [{"file": which, "kind": "rmdir", "arg": 0}]
                out.append(c)
    return out


def cfg_constants(cfg):
    """Constants of a TLC config (single source of truth for the scaled universe)."""
    import os
    import re
    from .core import SPEC
    txt = open(os.path.join(SPEC, cfg)).read()
    out = {}
    for k in ("MaxFiles", "MaxSize"):
        out[k] = int(re.search(r"%s\s*=\s*(\d+)" % k, txt).group(1))
    out["PieceLens"] = [int(x) for x in re.search(r"PieceLens\s*=\s*\{([^}]*)\}", txt).group(1).split(",")]
    return out


def scaled_universe(cfg, version, clauses, rng, limit=None):
    """Every (recorded sizes, on-disk state) of the universe model-checked with `cfg` - the Init of
    FeedChecker.tla / HashChecker.tla enumerated the same way - as cases for the REAL checker."""
    import itertools
    k = cfg_constants(cfg)

    def states(rec):
        st = [{"present": False, "len": 0, "flips": []}]
        st += [{"present": True, "len": l, "flips": []} for l in range(rec + 1)]
        st += [{"present": True, "len": rec, "flips": [o]} for o in range(rec)]
        return st
    out = []
    for P in k["PieceLens"]:
        for n in range(1, k["MaxFiles"] + 1):
            for recs_ in itertools.product(range(k["MaxSize"] + 1), repeat=n):
                if sum(recs_) == 0:
                    continue
                for disk in itertools.product(*[states(r) for r in recs_]):
                    out.append({"scaled": True, "version": version, "P": P, "block": 2 if P % 2 == 0 else P,
                                "recs": list(recs_), "disk": list(disk), "clauses": clauses})
    if limit and len(out) > limit:
        out = rng.sample(out, limit)
    return out


class RecheckProp(Prop):
    engine = "E3-recheck"
    runner = staticmethod(recheck.run_any)
    trace = ("TraceRecheck.tla", "Trace_Recheck.cfg")
    group_key = "group"
    timeout = 180
    assumptions = [
        "described payload bytes are non-zero (generator) so absent data read as zeros never verifies; padding entries are the only all-zero regions",
        "damage is known by construction (flip = xor 0xFF of a byte, truncate, remove) and reported to TLC as disk state",
        "reference-encoded metafiles come from vh/refenc.py (independent BEP3/47/52 encoder)",
        "SHA-1/SHA-256 collision-freeness; TLC evaluates RecheckRef correctly",
    ]

    def mc(self, tier):
        q = tier != "thorough"
        return [
            {"module": "FeedChecker.tla", "cfg": "MC_FeedChecker_quick.cfg" if q else "MC_FeedChecker.cfg",
             "what": "v1 recheck iterator incl. bytearray aliasing vs RecheckRef, all (recorded, on-disk) states, <=3 files"},
            {"module": "FeedChecker.tla", "cfg": "MC_FeedChecker_pads.cfg", "tier": "thorough",
             "what": "same with BEP 47 padding entries"},
            {"module": "FeedChecker.tla", "cfg": "MC_FeedChecker_4files.cfg", "tier": "thorough",
             "what": "4 files, sizes 0..3: 168 390 inputs"},
            {"module": "FeedChecker.tla", "cfg": "MC_FeedChecker_P3.cfg", "tier": "thorough",
             "what": "piece length 3 (odd), sizes 0..7"},
            {"module": "HashChecker.tla", "cfg": "MC_HashChecker_4files.cfg", "tier": "thorough",
             "what": "4 files, sizes 0..3"},
            {"module": "HashChecker.tla", "cfg": "MC_HashChecker_quick.cfg" if q else "MC_HashChecker.cfg",
             "what": "v2/hybrid recheck iterator + Padder + FileHasher on short/absent files vs RecheckRef"},
            {"module": "FeedChecker.tla", "cfg": "MC_FeedChecker_live.cfg",
             "what": "liveness: the v1 recheck iteration ends for every (recorded, on-disk) state"},
            {"module": "HashChecker.tla", "cfg": "MC_HashChecker_live.cfg",
             "what": "liveness: the v2 / hybrid recheck iteration ends for every (recorded, on-disk) state"},
            {"module": "CheckerProto.tla", "cfg": "MC_CheckerProto.cfg",
             "what": "protocol of one Checker object: generators opened / advanced / given up, results(), content changing in "
                     "between: the figure is always the exact share (Exact, Hundred)"},
            {"module": "CheckerProto.tla", "cfg": "MC_CheckerProto_instance.cfg", "expect": "fail", "workers": 2,
             "what": "seed R15-C16: counters on the object, reset at the end of a walk - a walk given up leaks into the next"},
            {"module": "CheckerProto.tla", "cfg": "MC_CheckerProto_cached.cfg", "expect": "fail", "workers": 2,
             "what": "results() answering from the stored figure without walking again: wrong once the content changed"},
            {"module": "FeedChecker.tla", "cfg": "MC_FeedChecker_code.cfg", "expect": "fail",
             "what": "iter_pieces as found at the pinned commit must violate StreamCorrect"},
            {"module": "HashChecker.tla", "cfg": "MC_HashChecker_code.cfg", "expect": "fail",
             "what": "__next__ as found at the pinned commit (single retry) must violate StreamCorrect"},
        ]

    def records(self, cases, results):
        out = []
        for rs in results:
            out.extend(rs if isinstance(rs, list) else [rs])
        return out

    def case_id(self, rec_id):
        return (rec_id - 10 ** 7) // 100 if isinstance(rec_id, int) and rec_id >= 10 ** 7 else rec_id

    def proto_cases(self, tier, rng, clauses):
        """Behaviours of CheckerProto.tla (TLC -simulate): one Checker object, generators opened / advanced / given
        up, results() asked, pieces damaged and repaired in between - replayed into the real Checker."""
        from . import core, tlaval
        from .core import Machinery
        n = 1500 if tier == "thorough" else 120
        r = core.run_tlc("CheckerProto.tla", "Sim_CheckerProto.cfg", workers=1, simulate="num=%d" % n, depth=11,
                         seed=core.SEED, timeout=900)
        if r.error or r.violation:
            raise Machinery("CheckerProto simulation failed: %s" % (r.error or r.violation))
        hs = [h[1] for h in tlaval.find_tagged(r.out, "PHIST")]
        if len(hs) < n // 2:
            raise Machinery("CheckerProto simulation produced %d of %d behaviours" % (len(hs), n))
        out = []
        for k, h in enumerate(hs):
            ops = [{"op": s["op"], "g": s["g"]} for s in h]
            if not any(s["op"] == "results" for s in ops):
                continue
            out.append({"op": "proto", "npieces": ops[0]["g"], "ops": ops, "version": (1, 2, 3)[k % 3], "P": (B, 2 * B)[k % 2],
                        "group": "none", "clauses": clauses})
        self._proto = {"behaviours": len(hs), "replayed": len(out), "cmd": r.cmd}
        return out

    def mk(self, rng, P, v, src, dmg_n, clauses, allow_single=True, route=None, group=None, path_mode="root",
           tree=None):
        if tree is None:
            sh, sizes = pick_tree(rng, P, allow_single and src not in ("ref_unsorted", "ref_bep47", "ref_trailing"))
        else:
            sh, sizes = tree
        t = mk_tree(sh, sizes, nv=rng.randrange(6) if rng.random() < 0.3 else 0)
        damage = []
        nfiles = len(t["files"])
        for _ in range(dmg_n):
            f = rng.randrange(nfiles)
            kind, arg = rng.choice(damage_options(t["files"][f]["size"], P))
            if kind == "wrong" and sh in ("DSYM", "DEXT", "DL"):
                kind = "flip"           # (aliased members: the state is observed byte by byte - keep it small)
            damage.append({"file": f, "kind": kind, "arg": arg})
        if rng.random() < 0.12:       # contents in which the byte one piece length earlier is the same byte
            pat = rng.choice(("const", "period"))
            for f in t["files"]:
                f["mode"] = pat
        return {"scaled": False, "extra_keys": rng.random() < 0.3, "rel_paths": rng.random() < 0.25,
                "noise": rng.random() < 0.3, "via_symlink": rng.random() < 0.2,
                "version": v, "meta_src": src, "P": P, "tree": t, "damage": damage,
                "route": route or ("cli" if rng.random() < 0.15 else "lib"),
                "proto": rng.choice(("fresh", "fresh", "abandon", "twice", "after_iter")),
                "path_mode": path_mode, "group": group or "none", "clauses": clauses,
                "shape": sh}

    def corruptions(self, recs):
        import copy
        from .mutate import first
        out = []
        for r in first(recs, lambda r: r["status"] == "ok" and not r.get("nostream", True) and len(r["stream"]) >= 1):
            if self.pid == "C16":
                m = copy.deepcopy(r)
                m["stream"][0][0] = not m["stream"][0][0]
                out.append((m, "C16.stream"))
                m = copy.deepcopy(r)
                m["ppm"] = m["ppm"] - 5000 if m["ppm"] >= 5000 else m["ppm"] + 5000
                m["ppm2"] = m["ppm"]
                out.append((m, "C16.ppm"))
        if self.pid == "C05":
            for r in first(recs, lambda r: r.get("op") == "findroot" and r["status"] == "ok" and len(r["got"]) > 1):
                m = copy.deepcopy(r)
                m["got"] = m["got"][:-1]
                out.append((m, "M05.findroot"))
                m = copy.deepcopy(r)
                m["ppm"] = 0
                out.append((m, "C05.findroot"))
        if self.pid == "C16":
            for r in first(recs, lambda r: r.get("op") == "proto" and r["status"] == "ok" and len(r["truth"]) >= 2):
                m = copy.deepcopy(r)
                m["truth"][0][0] = not m["truth"][0][0]
                out.append((m, "C16.proto"))
        for r in first(recs, lambda r: r["status"] == "ok" and r.get("op") not in ("findroot", "proto")):
            if self.pid == "C05":
                m = copy.deepcopy(r)
                m["ppm"] = m["ppm2"] = 99999999
                out.append((m, "C05.hundred"))
            if self.pid == "C04" and any((not d["present"] and k == "f" and n > 0) or d["flips"]
                                       for d, k, n in zip(r["disk"], r["kinds"], r["recs"])):
                m = copy.deepcopy(r)
                m["ppm"] = m["ppm2"] = 100000000
                out.append((m, "C04.lt100"))
        return out

    def fix_view(self, case):
        """damage indexes refer to payload files in tree order; translate to the recorded view
        (which may be reordered / have padding entries) is done by name in the runner."""
        return case

    def nontrivial(self, case):
        if case.get("op") == "proto":
            return ("proto", case["version"], case["P"], str(case["ops"]))
        if case.get("scaled"):
            return ("scaled", case["version"], case["P"], tuple(case["recs"]),
                    tuple((d["present"], d["len"], tuple(d["flips"])) for d in case["disk"]))
        t = case["tree"]
        return (case["version"], case["meta_src"], case["P"], tuple(f["size"] for f in t["files"]),
                tuple((d["file"], d["kind"], d["arg"]) for d in case["damage"]), case["path_mode"], case["route"],
                bool(case.get("parent_named")), bool(case.get("extra_keys")), bool(case.get("rel_paths")),
                tuple(f.get("mode", "rand") for f in t["files"]))

    def signature(self, case, rec, clause):
        return "%s/v%s" % (clause, case["version"] if case else "?")

    def extra_coverage(self, tier, cases, recs):
        sc = getattr(self, "_scaled", None)
        out = {"scaled_world_replay": sc} if sc else {}
        if getattr(self, "_proto", None):
            out["checker_protocol_replay"] = self._proto
        if getattr(self, "_findroot", None):
            out["findroot_universe_replay"] = self._findroot
        return out

    def sample(self, case, rec):
        if case.get("op") == "proto":
            return {"protocol_ops": [(s["op"], s["g"]) for s in case["ops"]], "version": case["version"],
                    "figure_ppm": rec.get("ppm") if rec else None, "truth": rec.get("truth") if rec else None}
        if case.get("op") == "findroot":
            return {"findroot_world": case["world"], "version": case["version"], "path_mode": case["path_mode"],
                    "found": rec.get("got") if rec else None}
        if case.get("scaled"):
            return {"scaled_world": True, "version": case["version"], "P": case["P"], "recs": case["recs"],
                    "disk": case["disk"], "stream": rec.get("stream") if rec else None}
        return {"version": case["version"], "meta_src": case["meta_src"], "P": case["P"],
                "sizes": [f["size"] for f in case["tree"]["files"]], "damage": case["damage"],
                "path_mode": case["path_mode"], "route": case["route"],
                "reported_ppm": rec.get("ppm") if rec else None,
                "stream_len": len(rec.get("stream", [])) if rec else None}

    def plens(self, tier):
        return [B, 2 * B] + ([4 * B] if tier == "thorough" else [])


class C16(RecheckProp):
    pid = "C16"
    design_ref = "DESIGN.md section 6 C04/C05/C16"
    level_text = ("TLC checks the implementation-shaped models of FeedChecker (with the aliasing of the partial "
                  "bytearray) and HashChecker/Padder against the reference verdict stream for every (recorded size, "
                  "on-disk state) combination of a scaled world, and validates recorded iter_hashes() streams and "
                  "reported percentages of the real Checker on payloads with 0..3 boundary-placed damages: exact "
                  "stream equality, sizes summing to the payload, percentage within 1 ppm of the reference share. CheckerProto.tla "
                  "models what one Checker object may be put through (walks opened / advanced / given up, results(), content "
                  "changing in between): the figure is always the exact share; two wrong variants must fail; TLC-simulated "
                  "behaviours are replayed into one real Checker each (C16.proto). Liveness of both iterator models is checked.")
    rule = ("cases = (version, metafile source own/reference-encoder variants, P, shape, sizes from A(P), 0..3 "
            "damages from {flip at piece boundaries, truncate to boundary lengths, remove}); distinct by all of these")

    def cases(self, tier, rng):
        n = 8000 if tier == "thorough" else 420
        out = []
        cl = ["C16.stream", "C16.total", "C16.ppm", "M16.impl"]
        for k in range(n):
            v = (1, 2, 3)[k % 3]
            src = SRCS[v][(k // 3) % len(SRCS[v])]
            P = rng.choice(self.plens(tier))
            c = self.mk(rng, P, v, src, k % 4, cl)
            if c["tree"].get("single"):
                c["damage"] = [d for d in c["damage"] if d["kind"] not in ("remove", "rmdir", "dangling")]
            out.append(c)
        out += periodic_cases(self, rng, cl) + missing_dir_cases(self, rng, cl) + linked_member_cases(self, rng, cl)
        out += foreign_plen_cases(self, rng, cl, (0, 2)) + twin_member_cases(self, rng, cl) + u8_digest_cases(self, rng, cl)
        out += big_piece_cases(self, rng, cl, [[], [{"file": 0, "kind": "flip", "arg": 2 ** 20 + 7}],
                                               [{"file": 0, "kind": "trunc", "arg": 2 ** 21}]])
        # payload members reached through symbolic links (inside the root / leading outside it), intact and damaged
        for v in (1, 2, 3):
            for sh in ("DSYM", "DEXT"):
                for dn in (0, 1):
                    P = self.plens(tier)[v % 2]
                    A = [a for a in alphabet(P) if a]
                    out.append(self.mk(rng, P, v, "own", dn, cl, tree=(sh, tuple(rng.choice(A) for _ in SHAPES[sh]))))
        # the model-checked universe itself, replayed into the real checker (quick: the universe of the
        # quick config, sampled; thorough: the universe of the 3-file config completely)
        cfg1, cfg2 = ("MC_FeedChecker_quick.cfg", "MC_HashChecker_quick.cfg") if tier != "thorough" else (
            "MC_FeedChecker.cfg", "MC_HashChecker.cfg")
        lim = None if tier == "thorough" else 1500
        sc = scaled_universe(cfg1, 1, cl, rng, lim) + scaled_universe(cfg2, 2, cl, rng, lim)
        self._scaled = {"v1": cfg1, "v2": cfg2, "cases": len(sc), "complete": lim is None}
        return out + sc + self.proto_cases(tier, rng, ["C16.proto"])


class C04(RecheckProp):
    pid = "C04"
    design_ref = "DESIGN.md section 6 C04/C05/C16"
    level_text = ("TLC checks on the recheck models that the reported share is 100% only for intact content "
                  "(invariant Hundred, all on-disk states of a scaled world) and validates recorded rechecks of "
                  "damaged payloads (>=1 effective damage: flip / truncate / remove at boundary positions, next to "
                  "empty files, in shared pieces) against 'strictly less than 100% or an error'.")
    rule = ("cases as C16 with 1..2 damages; non-trivial = at least one damage hits a non-empty file (counted); "
            "cases whose damage set turned out empty are still executed but not counted")

    def cases(self, tier, rng):
        n = 8000 if tier == "thorough" else 420
        out = []
        for k in range(n):
            v = (1, 2, 3)[k % 3]
            src = SRCS[v][(k // 3) % len(SRCS[v])]
            P = rng.choice(self.plens(tier))
            out.append(self.mk(rng, P, v, src, 1 + (k % 2), ["C04.lt100"]))
        # systematic: remove / truncate the LAST file, and files next to empty files
        for v in (1, 2, 3):
            for src in SRCS[v]:
                for P in self.plens(tier):
                    for sizes in ((P, 1), (P + 1, P), (1, 0, P), (0, 1, 0), (P, 0, 1), (B, 0, 0), (2 * P, P - 1, 0)):
                        sh = {2: "D2", 3: "D3"}[len(sizes)]
                        for f in range(len(sizes)):
                            if sizes[f] == 0:
                                continue
                            for kind, arg in (("remove", 0), ("flip", sizes[f] - 1), ("trunc", sizes[f] - 1)):
                                c = self.mk(rng, P, v, src, 0, ["C04.lt100"], tree=(sh, sizes))
                                c["damage"] = [{"file": f, "kind": kind, "arg": arg}]
                                out.append(c)
        # one damaged byte / one missing file among hundreds of files; damage in piece 1000 of 1025; deep nesting
        small = [1, 2, 3, 5, B - 1, B, B + 1]
        for v in (1, 2, 3):
            sizes = tuple(rng.choice(small) if k % 7 else rng.choice((2 * B, 3 * B + 1)) for k in range(200))
            for f, kind, arg in ((199, "flip", 0), (100, "remove", 0), (7, "trunc", sizes[7] - 1), (0, "flip", 0)):
                c = self.mk(rng, B, v, "own", 0, ["C04.lt100"], tree=("DW", sizes))
                c["damage"] = [{"file": f, "kind": kind, "arg": arg}]
                out.append(c)
            for arg in (1000 * B + 5, 1025 * B, 0):
                c = self.mk(rng, B, v, "own", 0, ["C04.lt100"], tree=("S1", (1025 * B + 1,)))
                c["damage"] = [{"file": 0, "kind": "flip", "arg": arg}]
                out.append(c)
            c = self.mk(rng, B, v, "own", 0, ["C04.lt100"], tree=("DDEEP", (B + 1, 2 * B, 5)))
            c["damage"] = [{"file": 0, "kind": "flip", "arg": B}]
            out.append(c)
        out += periodic_cases(self, rng, ["C04.lt100"]) + missing_dir_cases(self, rng, ["C04.lt100"])
        out += linked_member_cases(self, rng, ["C04.lt100"]) + foreign_plen_cases(self, rng, ["C04.lt100"], (1, 2))
        out += twin_member_cases(self, rng, ["C04.lt100"])
        out += big_piece_cases(self, rng, ["C04.lt100"], [[{"file": 0, "kind": "flip", "arg": 2 ** 20 + 7}],
                                                          [{"file": 0, "kind": "trunc", "arg": 2 ** 21}]])
        lim = 20000 if tier == "thorough" else 1000
        sc = scaled_universe("MC_FeedChecker_quick.cfg", 1, ["C04.lt100"], rng, lim) + \
            scaled_universe("MC_HashChecker_quick.cfg", 2, ["C04.lt100"], rng, lim)
        self._scaled = {"cases": len(sc), "complete": False}
        return out + sc

    def nontrivial(self, case):
        if case.get("scaled"):
            return RecheckProp.nontrivial(self, case)
        t = case["tree"]
        if not any(t["files"][d["file"]]["size"] > 0 for d in case["damage"]):
            return None
        return RecheckProp.nontrivial(self, case)


class C05(RecheckProp):
    pid = "C05"
    design_ref = "DESIGN.md section 6 C04/C05/C16"
    level_text = ("TLC checks on the recheck models that intact content yields exactly the full share, and validates "
                  "recorded rechecks of intact payloads for own and reference-encoded metafiles (v1 sorted / "
                  "unsorted / BEP 47 padded, v2, hybrid with and without trailing pad, single-file), each through "
                  "content path = root and = parent (group clause: same verdict). The content-root search itself is "
                  "modelled in FindRoot.tla (payloads below / above directories that carry the payload's own name; the "
                  "pinned commit and the first repair are must-fail variants); its whole universe is replayed into the "
                  "real Checker from the root and from the parent, TLC comparing the root found with the model's.")

    def mc(self, tier):
        return RecheckProp.mc(self, tier) + [
            {"module": "FindRoot.tla", "cfg": "MC_FindRoot.cfg", "workers": 2,
             "what": "find_root / _holds_content (fixed): payload root found from the root and from the parent, 204 worlds "
                     "(directories above / below carrying the payload's name, unrelated noise, a loose copy of the first file in the parent)"},
            {"module": "FindRoot.tla", "cfg": "MC_FindRoot_code.cfg", "expect": "fail", "workers": 2,
             "what": "pinned commit: a parent directory named like the payload is taken for the root"},
            {"module": "FindRoot.tla", "cfg": "MC_FindRoot_exists.cfg", "expect": "fail", "workers": 2,
             "what": "first repair (5badd88): exists() instead of is_file() accepts the parent of x/x/x"},
            {"module": "FindRoot.tla", "cfg": "MC_FindRoot_probefirst.cfg", "expect": "fail", "workers": 2,
             "what": "seed R16-C05: whatever holds the first described file is the root - wrong when the parent holds a loose copy of it"}]
    rule = ("cases = (version, metafile source, P, shape, sizes from A(P) incl. empty files and exact piece "
            "multiples) x path mode {root, parent}; non-trivial = tree has an empty file or a size that is a "
            "multiple of P or is single-file")

    def cases(self, tier, rng):
        n = 5000 if tier == "thorough" else 260
        out = []
        g = 0
        trees = []
        for k in range(n):
            v = (1, 2, 3)[k % 3]
            src = SRCS[v][(k // 3) % len(SRCS[v])]
            P = rng.choice(self.plens(tier))
            trees.append((v, src, P, None))
        for v in (1, 2, 3):
            for src in SRCS[v]:
                for P in self.plens(tier):
                    for sizes in ((0, 1, 0), (P, 0, 1), (1, 0), (0, 0, P + 1), (P, P), (2 * P, 0, 0), (P - 1, 1, 0)):
                        trees.append((v, src, P, ({2: "D2", 3: "D3"}[len(sizes)], sizes)))
        M = 2 ** 20
        for v in (1, 2, 3):
            for src in ("own", "ref"):
                for P, tr in ((2 * M, ("S1", (3 * M,))), (2 * M, ("D2", (2 * M + 1, 5))), (M, ("D2", (M + 5, 3))), (4 * M, ("S1", (5 * M + 1,))),
                              (8 * M, ("D3", (M + 7, 9 * M + 3, 100 * 1024)))):
                    trees.append((v, src, P, tr))
        for v in (1, 2, 3):             # payloads without a single byte
            for src in SRCS[v]:
                trees.append((v, src, B, ("D3", (0, 0, 0))))
                trees.append((v, src, B, ("D2", (0, 0))))
        for v in (1, 2, 3):             # payload members reached through symbolic links
            for sh in ("DSYM", "DEXT", "DPAD"):
                A = [a for a in alphabet(B) if a]
                trees.append((v, "own", B, (sh, tuple(rng.choice(A) for _ in SHAPES[sh]))))
        # hundreds of files, deep nesting, a thousand pieces
        small = [0, 1, 2, 3, 5, B - 1, B, B + 1]
        for v in (1, 2, 3):
            for src in ("own", "ref"):
                trees.append((v, src, B, ("DW", tuple(rng.choice(small) if k % 7 else rng.choice((2 * B, 3 * B + 1)) for k in range(200)))))
                trees.append((v, src, B, ("DDEEP", (B + 1, 2 * B, 5))))
            trees.append((v, "own", B, ("S1", (1025 * B + 1,))))
        for v, src, P, tree in trees:
            g += 1
            base = self.mk(rng, P, v, src, 0, ["C05.hundred", "C05.rootparent"], tree=tree, group="g%d" % g)
            base["parent_named"] = g % 6 == 0        # the parent directory is named like the payload
            base["extra_keys"] = g % 3 == 1          # reference metafiles with keys this tool never writes
            base["rel_paths"] = g % 4 == 2           # both paths spelled relative to the working directory
            if g % 5 == 3:                           # contents that are not unique random bytes
                pat = ("zeros", "repeat", "sparse", "same", "ztail", "const", "zhead", "period", "zmid")[(g // 5) % 9]
                for f in base["tree"]["files"]:
                    f["mode"] = pat
            for mode in ("root", "parent"):
                c = dict(base)
                c["path_mode"] = mode
                out.append(c)
        for c in foreign_plen_cases(self, rng, ["C05.hundred", "C05.rootparent"], (0, 0)):
            g += 1
            for mode in ("root", "parent"):
                out.append(dict(c, path_mode=mode, group="g%d" % g))
        out += u8_digest_cases(self, rng, ["C05.hundred"])
        out += self.findroot_cases()
        lim = 20000 if tier == "thorough" else 1000
        sc = scaled_universe("MC_FeedChecker_quick.cfg", 1, ["C05.hundred"], rng, lim) + \
            scaled_universe("MC_HashChecker_quick.cfg", 2, ["C05.hundred"], rng, lim)
        for c in sc:
            c["group"] = "none"
        self._scaled = {"cases": len(sc), "complete": False}
        return out + sc

    def findroot_cases(self):
        """The universe of FindRoot.tla (payloads under / over directories that carry the payload's own
        name), emitted by TLC, replayed into the real Checker from the payload root and from its parent."""
        from . import core, tlaval
        from .core import Machinery
        r = core.run_tlc("FindRoot.tla", "Sim_FindRoot.cfg", workers=1, timeout=600)
        if r.error or r.violation:
            raise Machinery("FindRoot emission failed: %s" % (r.error or r.violation))
        seen, out = set(), []
        for _, w in tlaval.find_tagged(r.out, "WORLD"):
            key = repr(w)
            if key in seen:
                continue
            seen.add(key)
            kind = w["meta"]["kind"]
            for v in {"files": (1, 3), "length": (1, 3), "tree": (2,)}[kind]:
                for mode in ("root", "parent"):
                    out.append({"op": "findroot", "world": w, "version": v, "path_mode": mode, "group": "none",
                                "clauses": ["M05.findroot", "C05.findroot"]})
        self._findroot = {"worlds": len(seen), "cases": len(out), "cmd": r.cmd}
        return out

    def nontrivial(self, case):
        if case.get("op") == "findroot":
            return ("findroot", repr(case["world"]), case["version"], case["path_mode"])
        if case.get("scaled"):
            return RecheckProp.nontrivial(self, case)
        sizes = [f["size"] for f in case["tree"]["files"]]
        if not (case["tree"].get("single") or any(s == 0 or s % case["P"] == 0 for s in sizes)):
            return None
        return RecheckProp.nontrivial(self, case)


PROPS = {"C04": C04, "C05": C05, "C16": C16}
