"""Drivers that execute metafile creation / hashers of the code under test and abstract the
result into trace records (runs inside forked workers; imports torrentfile from VERIF_REPO)."""
import os
import sys

from . import alpha
from .core import (BLOCK, bdecode_strict, bencode, content, hexs, new_sandbox, rm, sha1,
                   write_file)


def _exc_status(ex):
    return "exc:" + type(ex).__name__


def rest_sig(raw):
    """Name of 'the whole metafile minus creation date' (canonical re-encoding, hashed)."""
    try:
        root, _, _ = bdecode_strict(raw)
        d = root.py()
        d.pop(b"creation date", None)
        return sha1(bencode(d)).hex()
    except Exception:
        return "undecodable"


def layers_sig(raw):
    try:
        root, _, _ = bdecode_strict(raw)
        pl = root.get(b"piece layers")
        if pl is None:
            return "absent"
        return sha1(bencode(pl.py())).hex()
    except Exception:
        return "undecodable"


def build_kwargs(case, root, out):
    kw = {"path": root, "outfile": out, "progress": case.get("progress", 0)}
    if case.get("P"):
        kw["piece_length"] = case["P"]
    if case.get("align"):
        kw["align"] = True
    kw["meta_version"] = str(case["version"])
    for k, v in (case.get("opts") or {}).items():
        kw[k] = v
    sw = case.get("swallowed")           # library form of the same thing: the path is the last element of a list option
    if sw:
        key = {"A": "announce", "W": "url_list", "H": "httpseeds"}[sw]
        kw[key] = list(kw[key] if isinstance(kw[key], list) else [kw[key]]) + [root]
        del kw["path"]
    return kw


def build_argv(case, root, out):
    sw = case.get("swallowed")           # the content path comes LAST, right after the values of a list-valued flag
    argv = list(case.get("pre", [])) + ["create"] + ([] if sw else [root]) + ["-o", out, "--prog", str(case.get("progress", 0)),
                                                                                "--meta-version", str(case["version"])]
    if case.get("P"):
        argv += ["--piece-length", str(case["P"])]
    if case.get("align"):
        argv += ["--align"]
    o = case.get("opts") or {}
    if o.get("announce"):
        argv += ["-a"] + list(o["announce"] if isinstance(o["announce"], list) else [o["announce"]])
    if o.get("url_list"):
        argv += ["--web-seed"] + list(o["url_list"])
    if o.get("httpseeds"):
        argv += ["--http-seed"] + list(o["httpseeds"])
    if o.get("private"):
        argv += ["-p"]
    if o.get("source"):
        argv += ["-s", o["source"]]
    if o.get("comment"):
        argv += ["-c", o["comment"]]
    if sw:
        flag, key = {"A": ("-a", "announce"), "W": ("--web-seed", "url_list"), "H": ("--http-seed", "httpseeds")}[sw]
        vals = list(o[key] if isinstance(o[key], list) else [o[key]])
        k = argv.index(flag)
        del argv[k:k + 1 + len(vals)]
        argv += [flag] + vals + [root]
    return argv


def create_meta(case, root, out):
    """Run the creator named by the case; returns status string."""
    creator = case["creator"]
    try:
        if creator == "cli":
            from torrentfile.cli import execute
            execute(build_argv(case, root, out))
        else:
            import torrentfile.torrent as tt
            cls = getattr(tt, creator)
            kw = build_kwargs(case, root, out)
            t = cls(**kw)
            reuse = case.get("reuse")
            if reuse == "other_first" and "path" in kw:
                # a second object for ANOTHER payload is constructed after this one and used before it
                other = os.path.join(os.path.dirname(out), "other-payload.bin")
                write_file(other, content("reuse/other", 3 * BLOCK + 7))
                kw2 = dict(kw, path=other, outfile=out + ".other")
                for k2 in ("announce", "url_list", "httpseeds"):
                    if isinstance(kw2.get(k2), list):
                        kw2[k2] = list(kw2[k2])
                t2 = cls(**kw2)
                t2.write()
                os.remove(out + ".other")
                os.remove(other)
            t.write()
            if reuse == "twice":          # the same object asked to write again
                t.write()
        return "ok"
    except SystemExit as ex:
        return "exit:%s" % ex.code
    except Exception as ex:  # the status is judged by the trace spec
        return _exc_status(ex)


class _Env:
    """Environment variations of one create: cwd, path spelling, directory enumeration order,
    clock.  Everything is restored on exit."""

    def __init__(self, case, root):
        self.case, self.root = case, root
        self.saved = {}

    def __enter__(self):
        import itertools
        c = self.case
        self.cwd = os.getcwd()
        if os.path.basename(self.root).startswith("~"):
            # a name a shell would expand: HOME leads to some other (small) directory for the duration
            decoy = os.path.join(os.path.dirname(os.path.dirname(self.root)), "home-of-somebody")
            os.makedirs(decoy, exist_ok=True)
            with open(os.path.join(decoy, "not-the-payload.txt"), "wb") as fh:
                fh.write(b"HOME")
            self.saved["HOME"] = os.environ.get("HOME")
            os.environ["HOME"] = decoy
        perm = c.get("enum_perm")
        if perm is not None:
            real_listdir, real_scandir = os.listdir, os.scandir
            self.saved["listdir"], self.saved["scandir"] = real_listdir, real_scandir

            def permute(items, key):
                items = sorted(items, key=key)
                n = len(items)
                if n < 2:
                    return items
                perms = list(itertools.islice(itertools.permutations(range(n)), 0, 720))
                idx = perms[perm % len(perms)]
                return [items[i] for i in idx]

            def listdir(path="."):
                return permute(real_listdir(path), lambda x: x)

            class _Scan:
                """os.scandir replacement: a real iterator (os.walk calls next() on it)."""

                def __init__(self, path):
                    self._it = real_scandir(path)
                    self._perm = None

                def __enter__(self):
                    return self

                def __exit__(self, *a):
                    self._it.close()
                    return False

                def close(self):
                    self._it.close()

                def __iter__(self):
                    return self

                def __next__(self):
                    if self._perm is None:
                        self._perm = iter(permute(list(self._it), lambda e: e.name))
                    return next(self._perm)

            os.listdir = listdir
            os.scandir = lambda path=".": _Scan(path)
        clock = c.get("clock")
        if clock is not None:
            import datetime as _dt
            import torrentfile.torrent as tt
            self.saved["datetime"] = tt.datetime

            class FakeDT(_dt.datetime):
                @classmethod
                def now(cls, tz=None):
                    return _dt.datetime.fromtimestamp(clock)
            tt.datetime = FakeDT
        return self

    def spelled(self):
        """The path string handed to the creator, and the directory to run in."""
        c, root = self.case, self.root
        sp = c.get("spelling", "abs")
        parent, name = os.path.dirname(root), os.path.basename(root)
        if sp == "abs":
            return root, c.get("cwd_dir") or parent
        if sp == "dot":                       # "." from inside the directory
            return ".", root
        if sp in ("symparent", "symparentrel"):   # reached through a symbolic link to its parent directory
            alias = os.path.join(os.path.dirname(parent), "alias-" + os.path.basename(parent))
            if not os.path.lexists(alias):
                os.symlink(parent, alias)
            if sp == "symparent":
                return os.path.join(alias, name), c.get("cwd_dir") or parent
            return os.path.join(os.path.basename(alias), name), os.path.dirname(parent)
        rel = {"rel": name, "dotslash": "./" + name, "trail": name + "/", "trail2": name + "//",
               "updown": "zz/../" + name, "slashdot": name + "/.", "absdot": None, "dbl": None}[sp]
        if sp == "absdot":
            return root + "/.", parent
        if sp == "dbl":
            return parent + "//" + name, parent
        if sp == "updown":
            os.makedirs(os.path.join(parent, "zz"), exist_ok=True)
        return rel, parent

    def __exit__(self, *a):
        os.chdir(self.cwd)
        if "HOME" in self.saved:
            if self.saved["HOME"] is None:
                os.environ.pop("HOME", None)
            else:
                os.environ["HOME"] = self.saved["HOME"]
        if "listdir" in self.saved:
            os.listdir, os.scandir = self.saved["listdir"], self.saved["scandir"]
        if "datetime" in self.saved:
            import torrentfile.torrent as tt
            tt.datetime = self.saved["datetime"]
        return False


def run_create_sub():
    """Entry point of the child interpreter started by run_create for cases that name a hash seed."""
    import json
    case = json.loads(sys.stdin.read())
    case["_in_sub"] = True
    real = sys.stdout
    sys.stdout = open(os.devnull, "w")
    import logging
    logging.disable(logging.CRITICAL)
    rec = run_create(case)
    sys.stdout = real
    print("RESULT " + json.dumps(rec))


def run_create(case):
    if case.get("hashseed") is not None and not case.get("_in_sub"):
        # a brand-new interpreter with another string-hash seed (set / dict-of-str iteration orders differ)
        import json
        import subprocess
        from .core import REPO, VERIF
        env = dict(os.environ, PYTHONPATH=VERIF + os.pathsep + REPO, PYTHONDONTWRITEBYTECODE="1", VERIF_REPO=REPO,
                   PYTHONHASHSEED=str(case["hashseed"]))
        p = subprocess.run([sys.executable, "-c", "from vh.create import run_create_sub; run_create_sub()"],
                           input=json.dumps(case).encode(), stdout=subprocess.PIPE, stderr=subprocess.PIPE, env=env, timeout=300)
        for ln in reversed(p.stdout.decode().strip().splitlines()):
            if ln.startswith("RESULT "):
                return json.loads(ln[7:])
        return {"id": case["id"], "op": "create", "group": case.get("group", "none"), "clauses": case["clauses"],
                "version": case["version"], "align": bool(case.get("align")), "P": case.get("P") or -1,
                "single": bool(case["tree"].get("single")), "name": hexs(case["tree"]["name"]), "outer": case.get("outer", ""),
                "creator": case["creator"], "status": "sub-failed:%d" % p.returncode, "disk": [], "meta": {"decodable": False}}
    sbx = new_sandbox("cr")
    try:
        tree = case["tree"]
        base = os.path.join(sbx, "q", "deeper") if case.get("copy") else os.path.join(sbx, "p")
        root = alpha.materialize(tree, base)
        if case.get("file_meta"):        # other permission bits and old time stamps on the payload: not part of the payload
            k = case["file_meta"]
            for dp, dns, fns in os.walk(root):
                for fn in sorted(fns):
                    p = os.path.join(dp, fn)
                    if not os.path.islink(p):
                        k += 1
                        os.chmod(p, (0o755, 0o600, 0o444, 0o775, 0o711)[k % 5])
                        os.utime(p, (978307200 + k, 978307200 + 60 * k))
        os.makedirs(os.path.join(sbx, "o"))
        os.makedirs(os.path.join(sbx, "elsewhere"))
        out = os.path.join(sbx, "o", case.get("outname", "m.torrent"))
        if case.get("out_inside") and os.path.isdir(root):      # the metafile is written INTO the content directory
            out = os.path.join(root, "zz-new-out.torrent")
        if case.get("cwd_mode") == "elsewhere":
            case = dict(case, cwd_dir=os.path.join(sbx, "elsewhere"))
        with _Env(case, root) as env:
            path, cwd = env.spelled()
            os.chdir(cwd)
            status = create_meta(case, path, out)
        rec = {"id": case["id"], "op": "create", "group": case.get("group", "none"),
               "clauses": case["clauses"], "version": case["version"],
               "align": bool(case.get("align")), "P": case.get("P") or -1,
               "single": bool(tree.get("single")), "name": hexs(tree["name"]),
               "outer": case.get("outer", ""), "creator": case["creator"], "status": status,
               "disk": [{"path": [hexs(c) for c in comps], "size": sz}
                        for comps, sz in alpha.disk_files(root) if comps != ["zz-new-out.torrent"]]}
        if status == "ok" and os.path.isfile(out):
            with open(out, "rb") as fh:
                raw = fh.read()
            m = alpha.alpha_meta(raw, root)
            m["rest_sig"] = rest_sig(raw)
            m["layers_sig"] = layers_sig(raw)
            m.setdefault("stream_len", -1)
            rec["meta"] = m
        else:
            if status == "ok":
                rec["status"] = "nofile"
            rec["meta"] = {"decodable": False}
        return rec
    finally:
        rm(sbx)


HASHER_CLASSES = [("HasherV2", False, False), ("HasherHybrid", True, False),
                  ("FileHasher", False, True), ("FileHasher", True, True)]


def range_table(stream, P):
    """SHA-1 of every contiguous range of `stream` of at most P bytes, plain and zero-extended to P:
    hash -> [["S", start, len, z]] (byte offsets; used in the scaled world where streams are tiny)."""
    table = {}
    n = len(stream)
    for start in range(n):
        for ln in range(1, min(P, n - start) + 1):
            sl = stream[start:start + ln]
            table.setdefault(sha1(sl), []).append(["S", start, ln, 0])
            if ln < P:
                table.setdefault(sha1(sl + bytes(P - ln)), []).append(["S", start, ln, P - ln])
    return table


def run_hasher1(case):
    """Scaled world: the real v1 Hasher on files of a few bytes with piece length 2 / 4 (the universe
    HasherV1.tla is model-checked on); every produced piece is named by the byte range it hashes."""
    sbx = new_sandbox("h1")
    try:
        import torrentfile.hasher as th
        from torrentfile.mixins import ProgMixin
        sizes, P, align = case["sizes"], case["P"], case["align"]
        paths, stream = [], b""
        for fi, n in enumerate(sizes):
            data = content("h1/%d/%d" % (case["id"], fi), n)
            p = os.path.join(sbx, "f%d" % fi)
            write_file(p, data)
            paths.append(p)
            stream += data
        tab = range_table(stream, P)
        rec = {"id": case["id"], "op": "hasher1", "group": "none", "clauses": case["clauses"], "sizes": list(sizes),
               "P": P, "align": bool(align), "status": "ok", "pieces": [], "_cfg": "Trace_Create_scaled.cfg"}
        try:
            h = th.Hasher(paths, P, align=bool(align), progress=0, progress_bar=ProgMixin.NoProg())
            rec["pieces"] = [tab.get(bytes(x), []) for x in h]
        except Exception as ex:
            rec["status"] = _exc_status(ex)
        return rec
    finally:
        rm(sbx)


def run_hashers(case):
    """(root, piece_layer, pieces, padding_file) of every v2-capable hasher on one file."""
    sbx = new_sandbox("hs")
    cwd0 = os.getcwd()
    block = case.get("block", BLOCK)
    import torrentfile.hasher as th
    old_block = th.BLOCK_SIZE
    th.BLOCK_SIZE = block            # scaled world: the hasher module's block size constant
    try:
        from torrentfile.mixins import ProgMixin
        size, P = case["size"], case["P"]
        data = content("hashers/%d" % case["id"], size, mode=case.get("mode", "rand"))
        path = os.path.join(sbx, "f.bin")
        write_file(path, data)
        tab2 = alpha.merkle_table(data, 1, block=block)
        alpha.zero_table(24, P, tab2)
        tab1 = alpha.stream_table(data, P)
        hs = []
        for name, hybrid, it in HASHER_CLASSES:
            h = {"cls": name, "hybrid": hybrid, "iter": it, "status": "ok", "root": [], "layer": [],
                 "pieces": [], "padding": 0, "rootsig": "", "layersig": "", "piecesig": "",
                 "yields": [], "yieldsig": ""}
            try:
                cls = getattr(th, name)
                kw = {"progress": 0, "progress_bar": ProgMixin.NoProg()}
                if it:
                    if case.get("chdir_between"):
                        # library use: a relative path, and the working directory changes between building the
                        # hasher and draining it (a same-named other file lies in the new directory)
                        os.chdir(sbx)
                        o = cls("f.bin", P, hybrid=hybrid, **kw)
                        os.makedirs(os.path.join(sbx, "elsewhere"), exist_ok=True)
                        write_file(os.path.join(sbx, "elsewhere", "f.bin"), content("other/%d" % case["id"], size, 1))
                        os.chdir(os.path.join(sbx, "elsewhere"))
                    else:
                        o = cls(path, P, hybrid=hybrid, **kw)
                    ys = []
                    for y in o:
                        ys.append(y)
                    lay = b"".join(bytes(y[0] if hybrid else y) for y in ys)
                    h["yields"] = [1] * len(ys)
                    h["yieldsig"] = sha1(lay).hex()
                    if hybrid:
                        ypieces = b"".join(bytes(y[1]) for y in ys)
                        if ypieces != b"".join(bytes(p) for p in o.pieces):
                            h["yieldsig"] = "pieces-differ"
                else:
                    o = cls(path, P, **kw)
                root = bytes(o.root) if o.root else b""
                pl = bytes(o.piece_layer or b"")
                h["root"] = tab2.get(root, [])
                h["rootsig"] = root.hex()
                h["layer"] = [tab2.get(x, []) for x in alpha.split(pl, 32)]
                h["layersig"] = sha1(pl).hex()
                if hybrid:
                    pcs = b"".join(bytes(p) for p in o.pieces)
                    h["pieces"] = [tab1.get(x, []) for x in alpha.split(pcs, 20)]
                    h["piecesig"] = sha1(pcs).hex()
                    pf = o.padding_file
                    h["padding"] = pf["length"] if pf else 0
                    if pf and (pf.get("attr") != "p"):
                        h["padding"] = -1
            except Exception as ex:
                h["status"] = _exc_status(ex)
            hs.append(h)
        out = {"id": case["id"], "op": "hashers", "group": "none", "clauses": case["clauses"],
               "size": size, "P": P, "hashers": hs}
        if block != BLOCK:
            out["_cfg"] = "Trace_Create_scaled.cfg"
        return out
    finally:
        th.BLOCK_SIZE = old_block
        os.chdir(cwd0)
        rm(sbx)


def run_any(case):
    if case.get("op") == "hasher1":
        return run_hasher1(case)
    if case.get("op") == "hashers":
        return run_hashers(case)
    return run_create(case)
