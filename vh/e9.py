"""Engine E9 - option routes (C20)."""
import itertools

from . import cli
from .core import BLOCK
from .e1 import mk_tree
from .engine import Prop

B = BLOCK
FLAGS = ["A", "W", "H", "P", "S", "C", "L", "V", "O", "G"]


class C20(Prop):
    pid = "C20"
    engine = "E9-option-routes"
    runner = staticmethod(cli.run_cli)
    trace = ("TraceCli.tla", "Trace_Cli.cfg")
    group_key = "group"
    design_ref = "DESIGN.md section 6 C20"
    level_text = ("TLC checks Cli.tla - argparse's greedy list-valued flags swallowing the positional content path in "
                  "every argument order of up to 4 option groups, the recovery in MetaFile.__init__, the configuration "
                  "key mapping and the keyword route - against the intended option record (the pinned commit's config "
                  "mapping of web-seed / out / tracker is a must-fail variant). Conformance: each option subset is "
                  "supplied through keywords, a generated configuration file, the interactive dialog (scripted answers; "
                  "it uses the class-based creators) and several command-line orders (content "
                  "path first, last, and right after each list-valued flag; flag aliases); TLC validates that every "
                  "option landed in its documented field and that all members of the group wrote the same file apart "
                  "from the creation date, at the requested location, and nothing else. CliArgv.tla refines the command line to "
                  "single tokens (greedy list flags, --flag=value, scalar flags, the positional, the recovery): ArgvRefines and "
                  "termination over 16 345 command lines, four wrong variants must fail; the universe is replayed into the real "
                  "front end and the namespace argparse produces is compared with the model's (M20.argv).")
    rule = ("groups = option subsets of {announce, web-seed, http-seed, private, source, comment, piece-length, "
            "meta-version, out, align} x routes {kw, config, cli in 3-6 argument orders}; non-trivial = cli members "
            "whose content path is not the first argument, and config / kw members; distinct by (subset, route, order)")
    assumptions = ["option values are fixed test URLs / strings; piece length given as exponent 15 or value 32768"]

    def mc(self, tier):
        return [{"module": "Cli.tla", "cfg": "MC_Cli.cfg", "what": "all orders of <=4 option groups + content path; three routes"},
                {"module": "Cli.tla", "cfg": "MC_Cli_deep.cfg", "tier": "thorough", "timeout": 3000,
                 "what": "all orders of <=6 option groups: 1 268 211 (subset, order) pairs"},
                {"module": "CliArgv.tla", "cfg": "MC_CliArgv.cfg",
                 "what": "token level: argparse (greedy list flags, --flag=value, scalar flags, positional) + MetaFile's recovery "
                         "for every order and spelling of <= 3 option groups with the content path in every gap: 16 345 command lines"},
                {"module": "CliArgv.tla", "cfg": "MC_CliArgv_live.cfg", "what": "liveness: the token walk ends"},
                {"module": "CliArgv.tla", "cfg": "MC_CliArgv_untrimmed.cfg", "expect": "fail", "what": "seed C20b: recovered path left in its list"},
                {"module": "CliArgv.tla", "cfg": "MC_CliArgv_first.cfg", "expect": "fail", "what": "recovery looks at the first element"},
                {"module": "CliArgv.tla", "cfg": "MC_CliArgv_norecoverh.cfg", "expect": "fail", "what": "no recovery from httpseeds"},
                {"module": "CliArgv.tla", "cfg": "MC_CliArgv_valmangle.cfg", "expect": "fail", "what": "seed R14-C20: the value of --flag=value rewritten"},
                {"module": "Cli.tla", "cfg": "MC_Cli_code.cfg", "expect": "fail",
                 "what": "config keys web-seed / out mapped to non-keywords (pinned commit)"}]

    def cases(self, tier, rng):
        subsets = [set()]
        subsets += [{f} for f in FLAGS]
        subsets += [set(FLAGS)]
        subsets += [{"A", "W"}, {"A", "H", "O"}, {"W", "H"}, {"A", "P", "L"}, {"V", "G", "A"}, {"O", "C", "S"},
                    {"A", "W", "H", "V"}, {"L", "V", "O"}]
        n = 250 if tier == "thorough" else 14
        for _ in range(n):
            subsets.append({f for f in FLAGS if rng.random() < 0.45})
        out = []
        for g, S in enumerate(subsets):
            opts = {f: f in S for f in FLAGS}
            v = (2, 3, 1)[g % 3] if "V" in S else 1
            tree = mk_tree("D2", (B + 5, 2 * B)) if g % 4 else mk_tree("S1", (3 * B + 1,))
            base = {"opts": opts, "version": v, "tree": tree, "plen": 2 * B, "plen_arg": 15 if g % 2 else 32768,
                    "group": "c20-%d" % g, "clauses": ["C20.fields", "C20.same"],
                    "padneeded": not tree.get("single"), "n_announce": 1 + g % 2}
            if g % 3 == 0:          # values that look like booleans are still text
                base["comment_val"] = ("true", "false", "True")[(g // 3) % 3]
                base["source_val"] = ("false", "true")[(g // 3) % 2]
            elif g % 3 == 1:        # text that INI syntax could mistake for a comment
                base["comment_val"] = "season 1 #3 of 8 ; remux"
                base["source_val"] = "ABC #1"
            elif g % 6 == 2:        # percent signs, '=' and ':' in values; percent-escaped URLs
                base["comment_val"] = "100% legit = yes: [really] %(x)s"
                base["source_val"] = "50%off"
                base["url_suffix"] = "?k=%20a%2Fb&x=1,2;tags=iso,linux"
            elif g % 6 == 5:        # characters that command-line layers (argument files, shells) treat specially
                base["comment_val"] = "@home: see @README, \"quoted\" $HOME ~user !x"
                base["source_val"] = "@SceneGroup"
                base["url_upper"] = True
                base["url_suffix"] = ("?", "#", "/../x/./", "?#")[(g // 6) % 4]
            if g % 4 == 3:
                base["out_slash"] = True
            out.append(dict(base, route="kw", kw_str=g % 2 == 0))
            if v == 1 and "V" not in S:
                out.append(dict(base, route="kw", kw_str=g % 2 == 1, kw_nover=True))
            out.append(dict(base, route="config", announce_key=("announce", "tracker")[g % 2],
                            config_where=("path", "cwd", "home", "homeconfig")[(g // 2) % 4],
                            config_layout=("plain", "blank", "keyline")[g % 3]))
            out.append(dict(base, route="config", explicit_false=True))     # switches spelled out as false
            if "G" not in S:        # the interactive dialog has no question for alignment
                out.append(dict(base, route="interactive"))
            present = [f for f in FLAGS if f in S] + ["PROG"]
            shapes = []
            shapes.append(["PATH"] + present)                    # path first
            shapes.append(present + ["PATH"])                    # path last (after PROG: not swallowed)
            for lf in ("A", "W", "H"):                           # path right after each list-valued flag
                if lf in S:
                    rest = [f for f in present if f != lf]
                    shapes.append(rest + [lf, "PATH"])
                    shapes.append([lf, "PATH"] + rest)
            for _ in range(6 if tier == "thorough" else 2):
                sh = present + ["PATH"]
                rng.shuffle(sh)
                shapes.append(list(sh))
            seen = set()
            for k, sh in enumerate(shapes):
                if tuple(sh) in seen:
                    continue
                seen.add(tuple(sh))
                out.append(dict(base, route="cli", shape=sh, spelling=("create", "new", "implicit")[(k + g) % 3],
                                announce_flag=("-a", "--announce", "--tracker")[k % 3],
                                magnet_flag=k % 4 == 1, pre=([], ["-q"], ["-v"])[k % 3],
                                argform="eq" if (k + g) % 3 == 2 else "plain"))
        return out + self.argv_cases(tier, rng)

    def argv_cases(self, tier, rng):
        """CliArgv.tla's universe of token sequences (every order and spelling of <= 3 option groups, the content
        path in every gap), emitted by TLC, replayed into the real front end."""
        from . import core, tlaval
        from .core import Machinery
        r = core.run_tlc("CliArgv.tla", "Sim_CliArgv.cfg", workers=1, timeout=900)
        if r.error or r.violation:
            raise Machinery("CliArgv emission failed: %s" % (r.error or r.violation))
        univ = [w for _, w in tlaval.find_tagged(r.out, "ARGV")]
        if len(univ) < 1000:
            raise Machinery("CliArgv emission produced %d command lines" % len(univ))
        univ = [w for w in univ if not w["ambiguous"]]
        pick = univ if tier == "thorough" else rng.sample(univ, 400)
        out = []
        for n, w in enumerate(pick):
            toks = [list(t) for t in w["argv"]]
            want = {"A": [], "W": [], "H": []}
            cur = None
            for t in toks:
                if t[0] == "flag":
                    cur = t[1] if t[1] in want else None
                elif t[0] == "eq":
                    cur = None
                    if t[1] in want:
                        want[t[1]] = [t[2]]
                elif cur and t[1] != "PATH":
                    want[cur].append(t[1])
            tree = mk_tree("D2", (B + 5, 2 * B)) if n % 3 else mk_tree("S1", (3 * B + 1,))
            out.append({"op": "argv", "tokens": toks, "want_lists": want, "tree": tree, "group": "argv-%d" % n,
                        "route": "argv", "opts": {}, "clauses": ["C20.fields", "M20.argv"]})
        self._argv = {"universe": len(univ), "replayed": len(out), "complete": tier == "thorough", "cmd": r.cmd}
        return out

    def extra_coverage(self, tier, cases, recs):
        return {"argv_universe_replay": getattr(self, "_argv", None)}

    def corruptions(self, recs):
        import copy
        from .mutate import first
        out = []
        for r in first(recs, lambda r: r.get("op") == "argv" and r["ns"]["captured"] and r["ns"]["lists"]["W"]):
            m = copy.deepcopy(r)
            m["ns"]["lists"]["W"] = m["ns"]["lists"]["W"][:-1]
            out.append((m, "M20.argv"))
        for r in first(recs, lambda r: r["status"] == "ok" and r["opts"]["A"]):
            m = copy.deepcopy(r)
            m["m"]["announce"] = ["-"]
            out.append((m, "C20.fields"))
        for r in first(recs, lambda r: r["status"] == "ok"):
            m = copy.deepcopy(r)
            m["new_files"] = 2
            out.append((m, "C20.fields"))
        return out

    def nontrivial(self, case):
        if case.get("op") == "argv":
            return ("argv", str(case["tokens"]))
        if case["route"] == "cli" and case["shape"] and case["shape"][0] == "PATH":
            return None
        return (case["group"], case["route"], tuple(case.get("shape", [])), case.get("announce_key"), case.get("argform"),
                case.get("explicit_false"), case.get("config_where"), case.get("spelling"), case.get("kw_str"), case.get("kw_nover"),
                case.get("config_layout"))

    def signature(self, case, rec, clause):
        return "%s/%s" % (clause, (case or {}).get("route", "?"))

    def sample(self, case, rec):
        if case.get("op") == "argv":
            return {"argv_tokens": case["tokens"], "namespace": rec.get("ns") if rec else None, "status": rec.get("status") if rec else None}
        return {"opts": [f for f, on in case["opts"].items() if on], "route": case["route"], "shape": case.get("shape"),
                "status": rec.get("status") if rec else None}


PROPS = {"C20": C20}
