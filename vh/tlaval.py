"""Parser for values printed by TLC (PrintT / state dumps): records, sequences, sets, functions
written as (k :> v @@ ...), strings, integers, booleans.  Used to replay TLC-generated
behaviours into the real code."""


class ParseError(Exception):
    pass


def parse(text, pos=0):
    v, pos = _val(text, _ws(text, pos))
    return v, pos


def _ws(t, i):
    n = len(t)
    while i < n and t[i] in " \t\r\n":
        i += 1
    return i


def _val(t, i):
    if t.startswith("<<", i):
        i = _ws(t, i + 2)
        out = []
        if t.startswith(">>", i):
            return out, i + 2
        while True:
            v, i = _val(t, i)
            out.append(v)
            i = _ws(t, i)
            if t.startswith(">>", i):
                return out, i + 2
            if t[i] != ",":
                raise ParseError("expected , in tuple at %d" % i)
            i = _ws(t, i + 1)
    c = t[i]
    if c == "[":
        i = _ws(t, i + 1)
        rec = {}
        if t[i] == "]":
            return rec, i + 1
        while True:
            j = i
            while t[j] not in " |\t\n":
                j += 1
            key = t[i:j]
            i = _ws(t, j)
            if not t.startswith("|->", i):
                raise ParseError("expected |-> at %d" % i)
            v, i = _val(t, _ws(t, i + 3))
            rec[key] = v
            i = _ws(t, i)
            if t[i] == "]":
                return rec, i + 1
            if t[i] != ",":
                raise ParseError("expected , in record at %d" % i)
            i = _ws(t, i + 1)
    if c == "{":
        i = _ws(t, i + 1)
        out = []
        if t[i] == "}":
            return out, i + 1
        while True:
            v, i = _val(t, i)
            out.append(v)
            i = _ws(t, i)
            if t[i] == "}":
                return out, i + 1
            if t[i] != ",":
                raise ParseError("expected , in set at %d" % i)
            i = _ws(t, i + 1)
    if c == "(":
        i = _ws(t, i + 1)
        fn = {}
        while True:
            k, i = _val(t, i)
            i = _ws(t, i)
            if not t.startswith(":>", i):
                raise ParseError("expected :> at %d" % i)
            v, i = _val(t, _ws(t, i + 2))
            fn[k if not isinstance(k, list) else tuple(k)] = v
            i = _ws(t, i)
            if t[i] == ")":
                return fn, i + 1
            if not t.startswith("@@", i):
                raise ParseError("expected @@ at %d" % i)
            i = _ws(t, i + 2)
    if c == '"':
        j = i + 1
        buf = []
        while t[j] != '"':
            if t[j] == "\\":
                j += 1
            buf.append(t[j])
            j += 1
        return "".join(buf), j + 1
    if c == "-" or c.isdigit():
        j = i + 1
        while j < len(t) and t[j].isdigit():
            j += 1
        return int(t[i:j]), j
    if t.startswith("TRUE", i):
        return True, i + 4
    if t.startswith("FALSE", i):
        return False, i + 5
    raise ParseError("unexpected %r at %d" % (t[i:i + 20], i))


def find_tagged(out, tag):
    """All values printed as <<"TAG", ...>> in TLC output (values may span several lines)."""
    import re
    res = []
    pat = re.compile(r'<<\s*"%s"' % re.escape(tag))
    i = 0
    while True:
        m = pat.search(out, i)
        if not m:
            return res
        try:
            v, j = parse(out, m.start())
            res.append(v)
            i = j
        except (ParseError, IndexError):
            i = m.end()
