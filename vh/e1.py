"""Engine E1 - metafile creation and hashers: C01, C02, C03, C10, C15."""
import itertools

from . import create
from .core import BLOCK
from .engine import Prop

B = BLOCK


def alphabet(P):
    a = [0, 1, B - 1, B, B + 1, 2 * B + 1, P - 1, P, P + 1, 2 * P - 1, 2 * P, 2 * P + 1, 3 * P,
         3 * P + B + 1, 4 * P, 5 * P - 1]
    out = []
    for x in a:
        if x not in out:
            out.append(x)
    return out


SHAPES = {
    "S1": None,                                         # single file
    "D1": [["only"]],
    "D2": [["a"], ["b"]],
    "D3": [["a.b"], ["a", "b"], ["a0"]],               # full-path order != per-directory order
    "D4": [["d", "c"], ["d", "e", "f"], ["z"], ["b"]],
    "D2n": [["x", "y", "1"], ["x", "2"]],
    "DN": [["@", "t1"], ["z"]],        # "@" = the payload root's own name (sub-directory named like the root)
    "DNf": [["@"], ["b"]],             # a file named like the root
    "DC": [["docs", "README"], ["docs", "readme"], ["Sub", "x"], ["sub", "x"]],   # names differing only in case
    "DU": [["ünï cödé", "ç é.bin"], [".hidden"], ["sp ace", "tab\there"], ["名前.dat"]],   # unusual but valid names
    "D5": [["l1", "l2", "l3", "l4", "deep.bin"], ["l1", "l2", "mid.bin"], ["l1", "top.bin"]],
    # names that are not NFC-stable next to siblings that sort between their raw and composed forms
    # members whose names differ only in letter case / Unicode normalisation form / compatibility folding
    "DTW": [["caf\u00e9.txt"], ["cafe\u0301.txt"], ["Notes.txt"], ["notes.txt"], ["sub", "\u212a.bin"], ["sub", "k.bin"]],
    # names that are not UTF-8 (the OS hands them over with surrogate escapes) next to names from U+E000 up, whose text order
    # and raw-byte order differ from theirs; BEP 3 paths are UTF-8, so a create may refuse such a payload
    "DRAW": [["\udcfcber.txt"], ["\uff21 fullwidth.txt"], ["plain.txt"], ["sub", "\udce9t\udce9.bin"], ["sub", "\U0001F600.bin"]],
    "DNFC": [["e\u0301.bin"], ["f.bin"], ["sub", "\u212a-scale.dat"], ["sub", "notes.txt"]],
    "DS": [["@"]],                     # a directory whose only file carries the directory's own name
    "DL": [["a.bin"], ["sub", "b.bin"], ["mirror", "a.bin"], ["zz-link"]],    # hard links inside the payload
    "DD": [["CD1", "cover.jpg"], ["CD2", "cover.jpg"], ["x.bin"]],          # same name, (made) identical bytes
    # names on which os.path / pathlib / splitext / shell-like handling could disagree
    "DX": [["a.tar.gz"], ["-dash"], ["x.torrent"], ["trailing.dot."], ["%41 #frag?q=1&r"], ["[br]{ace}", "semi;colon"],
           ["~tilde"], ["..two-dots"], ["sub.d", "...x"], ["sub.d", "CON"]],
    # two directory symlinks inside the payload that lead to the same real directory
    "DSYM": [["v2.1", "a.bin"], ["v2.1", "sub", "b.bin"], ["top.bin"]],
    # payload members that are symbolic links to a file / a directory OUTSIDE the content root
    "DEXT": [["a.bin"], ["z.bin"], ["@ext", "big.bin"], ["@ext", "extdir", "e.bin"]],
    # real files where clients store padding: .pad/<decimal>
    "DPAD": [[".pad", "12768"], [".pad", "x7"], ["a.bin"], ["b", "c.bin"]],
    # payload entries named like keys of the metafile itself
    "DKEY": [["announce"], ["comment", "x.txt"], ["info"], ["piece layers", "z"], ["pieces"], ["private"], ["source", "main.c"],
             ["url-list"]],
    # directories whose name is a proper prefix of a sibling's name (and siblings sorting around "/")
    "DP": [["disc1", "a.bin"], ["disc1", "sub", "b.bin"], ["disc10", "c.bin"], ["disc1.nfo"], ["disc1-extra", "d.bin"], ["disc"]],
    # payload members named like the scratch files tools put next to a file they are writing
    "DT": [["d", "x.bin"], ["d", "x.bin.part"], ["d", "x.bin.tmp"], ["d", "x.bin~"], ["d", ".x.bin.swp"], ["d", "x.bin.bak"],
           ["d", "x.bin.new"], ["d", "x.bin.partial"], ["d", "x.bin.!qB"], ["d", "x.bin.crdownload"], ["d", "x.bin.1"], ["d", "x.bin.old"]],
    # files that desktop environments drop into directories, next to real members
    "DCL": [["Thumbs.db"], ["a.bin"], ["b.bin"], ["c.bin"], ["sub", ".DS_Store"], ["sub", "x.bin"], ["sub", "y.bin"], ["sub", "z.bin"],
            ["desktop.ini"], ["zz", ".directory"], ["zz", "k"], ["zz", "l"], ["zz", "m"]],
    "DW": [["w%03d" % k] if k % 5 else ["grp%d" % (k // 50), "w%03d" % k] for k in range(200)],    # hundreds of files
    "DDEEP": [["n%d" % d for d in range(40)] + ["leaf.bin"], ["n%d" % d for d in range(20)] + ["mid.bin"], ["top.bin"]],
    "DM": [["m%02d" % k] if k % 3 else ["g%d" % (k // 3), "m%02d" % k] for k in range(14)],   # many files
}


# root names: several dots, hidden, blank inside, a name ending in ".torrent", non-ASCII
# (a colon as second character: what drive-letter handling "for portability" would take for a drive; two dots inside)
# (the non-ASCII root names are DECOMPOSED - not NFC - as macOS hands them out: whatever compares or rebuilds names has to
# use them as they are)
FILE_NAMES = ["single.bin", "archive.tar.gz", ".bashrc", "3:10 noext", "u\u0308ni\u0308 co\u0308de\u0301.bin", "x.torrent"]
DIR_NAMES = [None, "rel.v1.0", ".hidden-root", "3:10 to Yuma", "t.torrent", "u\u0308ni\u0308-ro\u0308o\u0308t.. vol"]


def mk_tree(shape, sizes, name=None, modes=None, nv=0):
    """nv: variant of the root name (0 = the default name)."""
    if shape == "S1":
        t = {"name": name or FILE_NAMES[nv % len(FILE_NAMES)], "single": True, "files": [{"path": [], "size": sizes[0]}]}
        if modes:
            t["files"][0]["mode"] = modes[0]
        return t
    nm = name or DIR_NAMES[nv % len(DIR_NAMES)] or ("t" + shape)
    paths = [[nm if c == "@" else c for c in p] for p in SHAPES[shape]]
    t = {"name": nm, "single": False,
         "files": [{"path": p, "size": s} for p, s in zip(paths, sizes)]}
    if modes:
        for f, m in zip(t["files"], modes):
            f["mode"] = m
    if shape == "DSYM":
        t["symlinks"] = [{"path": ["current"], "target": ["v2.1"]}, {"path": ["latest"], "target": ["v2.1"]},
                         {"path": ["v2.1", "sub", "again"], "target": ["v2.1", "sub"]}][:2]
    if shape == "DEXT":
        t["ext_files"] = [{"path": f["path"][1:], "size": f["size"]} for f in t["files"] if f["path"][0] == "@ext"]
        t["files"] = [f for f in t["files"] if f["path"][0] != "@ext"]
        t["symlinks"] = [{"path": ["linked.bin"], "ext": ["big.bin"]}, {"path": ["ldir"], "ext": ["extdir"]}]
    if shape in ("D4", "D5"):
        t["dirs"] = [["emptydir"], ["d", "alsoempty"]]       # directories without files
    if shape == "DL":            # the last two names are hard links of the first two files
        for k in (2, 3):
            t["files"][k]["link_of"] = k - 2
            t["files"][k]["size"] = t["files"][k - 2]["size"]
    return t


def gen_trees(tier, rng, plens, quick_n, thorough_n, need_nonempty=True):
    """(shape, sizes, P) triples: systematic small shapes + seeded random picks of the product."""
    out = []
    for P in plens:
        A = alphabet(P)
        for s in A:                                  # every single size, single-file and 1-file dir
            out.append(("S1", (s,), P))
            out.append(("D1", (s,), P))
        pairs = list(itertools.product(A, A))
        if tier != "thorough":
            pairs = rng.sample(pairs, 40)
        for p in pairs:
            out.append(("D2", p, P))
    # larger piece counts (powers of two and not, halving sequences with even and odd levels)
    P0 = plens[0]
    top = 140 if tier == "thorough" else 40
    for npc in range(6, top + 1):
        deltas = (-1, 0, 1, B + 1) if tier == "thorough" else (rng.choice((-1, 0, 1, B + 1)),)
        for dl in deltas:
            out.append((rng.choice(("S1", "D1")), (npc * P0 + dl,), P0))
    # hundreds to a thousand pieces, hundreds of files, deep nesting
    for npc in ((257, 1025) if tier != "thorough" else (257, 513, 600, 1025, 2047)):
        out.append(("S1" if npc % 2 else "D1", (npc * P0 + (npc % 3) - 1,), P0))
    small = [0, 1, 2, 3, 5, B - 1, B, B + 1]
    out.append(("DW", tuple(rng.choice(small) if k % 7 else rng.choice(alphabet(P0)) for k in range(200)), P0))
    out.append(("DDEEP", (P0 + 1, 2 * P0, 5), P0))
    # symbolic links inside the payload (two links to one directory; links leading outside the root); .pad/<n> files
    for sh in ("DSYM", "DEXT", "DPAD"):
        for P in plens[:2]:
            out.append((sh, tuple(rng.choice([a for a in alphabet(P) if a]) for _ in SHAPES[sh]), P))
    # large piece lengths (what the automatic choice gives for big payloads)
    M = 2 ** 20
    for Pbig, szs in ((2 * M, (3 * M,)), (2 * M, (2 * M + 1, 5)), (M, (M + 5, 3)), (4 * M, (5 * M + 1,)),
                      (8 * M, (M + 7, 9 * M + 3, 100 * 1024)),      # a piece reaching > 4 MiB into the next file
                      (64 * M, (M + 7, 5)),                          # > 32 MiB of padding after a file (hybrid / align)
                      (64 * M, (33 * M + 1, 5)), (64 * M, (64 * M + 1,)),    # files larger than 32 MiB at 64 MiB pieces
                      (8 * M, (12 * M,)), (8 * M, (4 * M, 3)), (16 * M, (20 * M,))):   # sizes on MiB-sized read boundaries inside a piece
        out.append(({1: "S1", 2: "D2", 3: "D3"}[len(szs)], szs, Pbig))
    n = thorough_n if tier == "thorough" else quick_n
    shapes = ["D3", "D4", "D2n", "D2", "DN", "DNf", "DC", "DU", "D5", "DNFC", "DS", "DL", "DM", "DX", "DSYM", "DEXT", "DPAD", "DKEY"]
    for _ in range(n):
        P = rng.choice(plens)
        A = alphabet(P)
        sh = rng.choice(shapes)
        k = len(SHAPES[sh])
        out.append((sh, tuple(rng.choice(A) for _ in range(k)), P))
    if need_nonempty:
        out = [t for t in out if sum(t[1]) > 0]
    # payloads without a single byte (one empty file, only empty files): no piece, no root, no layer - generated on purpose
    for P in plens[:2]:
        out += [("S1", (0,), P), ("D1", (0,), P), ("D2", (0, 0), P), ("D2n", (0, 0), P), ("D3", (0, 0, 0), P)]
    seen, uniq = set(), []
    for t in out:
        if t not in seen:
            seen.add(t)
            uniq.append(t)
    return uniq


def plens(tier):
    return [B, 2 * B, 4 * B] + ([8 * B, 16 * B] if tier == "thorough" else [])


def hasher1_universe(cfg, clauses, rng, limit=None, aligns=(False, True)):
    """The universe of MC_HasherV1*.cfg (all size vectors) as cases for the real v1 Hasher."""
    import itertools
    from .e3 import cfg_constants
    k = cfg_constants(cfg)
    out = []
    for P in k["PieceLens"]:
        for n in range(1, k["MaxFiles"] + 1):
            for sizes in itertools.product(range(k["MaxSize"] + 1), repeat=n):
                if sum(sizes) == 0:
                    continue
                for al in aligns:
                    out.append({"op": "hasher1", "sizes": list(sizes), "P": P, "align": al, "clauses": clauses,
                                "group": "none"})
    if limit and len(out) > limit:
        out = rng.sample(out, limit)
    return out


def hashers_scaled(clauses, tier):
    """The universe of MC_HasherV2.cfg (B = 2): every size 1 .. MaxPieces*P+1 for P/B in {1,2,4,8}."""
    out = []
    top = 24 if tier == "thorough" else 10
    for P in (2, 4, 8, 16):
        for size in range(1, top * P + 2):
            out.append({"op": "hashers", "size": size, "P": P, "block": 2, "group": "none", "clauses": clauses})
    return out


def modes_for(n, sizes):
    """Content patterns for every sixth case: all-zero files, one block repeated, long zero runs,
    identical files (the properties quantify over all contents, not only over unique random bytes)."""
    if n % 6:
        return None
    pat = ("zeros", "repeat", "sparse", "same", "ztail", "const", "zhead", "period", "zmid")[(n // 6) % 9]
    return [pat if (k + n // 24) % 2 == 0 or pat in ("same", "const", "period") else "rand" for k in range(len(sizes))]


class CreateProp(Prop):
    engine = "E1-create-hashers"
    runner = staticmethod(create.run_any)
    trace = ("TraceCreate.tla", "Trace_Create.cfg")
    assumptions = [
        "SHA-1 / SHA-256 are collision-free on the generated contents (digests are named by table lookup)",
        "file contents are bytes 1..255 from a seeded stream, unique per file name",
        "the strict bencode decoder and the hypothesis tables in vh/alpha.py abstract faithfully",
        "TLC evaluates the TLA+ reference operators correctly",
    ]

    def corruptions(self, recs):
        import copy
        from .mutate import first
        out = []
        ok = lambda r: r.get("op") == "create" and r.get("status") == "ok" and r["meta"].get("decodable")
        pid = self.pid
        for r in first(recs, lambda r: ok(r) and len(r["meta"].get("pieces", [])) >= 2 and r["version"] != 2
                       and (pid == "C01" or r["meta"]["has_files"])):
            m = copy.deepcopy(r)
            m["meta"]["pieces"][0], m["meta"]["pieces"][1] = m["meta"]["pieces"][1], m["meta"]["pieces"][0]
            clause = {"C01": "C01.pieces", "C15": "C15.pieces", "C03": "C03.pieces"}.get(pid)
            if clause:
                out.append((m, clause))
        for r in first(recs, lambda r: ok(r) and r["meta"].get("leaves") and r["meta"]["leaves"][0]["length"] > 0):
            if pid == "C02":
                m = copy.deepcopy(r)
                m["meta"]["leaves"][0]["root"] = [["Z", 0, 7, 0]]
                out.append((m, "C02.root"))
                m = copy.deepcopy(r)
                m["meta"]["leaves"][0]["length"] += 1
                out.append((m, "C02.tree"))
        for r in first(recs, lambda r: ok(r) and len(r["meta"].get("files", [])) >= 2):
            m = copy.deepcopy(r)
            m["meta"]["files"][0]["length"] += 1
            clause = {"C01": "C01.list", "C15": "C15.list", "C03": "C03.order"}.get(pid)
            if clause:
                out.append((m, clause))
        if pid in ("C08", "C09"):
            for r in first(recs, ok):
                m = copy.deepcopy(r)
                m["meta"]["name"] = "00"
                if pid == "C08":
                    out.append((m, "C08.name"))
                else:
                    m["sig"] = "corrupted"
                    out.append((m, "C09.fresh"))
        if pid == "C10":
            for r in first(recs, lambda r: r.get("op") == "hashers"):
                m = copy.deepcopy(r)
                m["hashers"][0]["rootsig"] = "00"
                out.append((m, "C10.hashers"))
        return out

    def nontrivial(self, case):
        if case.get("op") == "hasher1":
            return ("h1", tuple(case["sizes"]), case["P"], case["align"])
        if case.get("op") == "hashers":
            return ("h", case["size"], case["P"], case.get("block"))
        t = case["tree"]
        sizes = tuple(f["size"] for f in t["files"])
        P = case["P"]
        # non-trivial: at least one size not a multiple of the piece length or an empty file
        if P and all(s % P == 0 and s > 0 for s in sizes):
            return None
        return (case["creator"], case["version"], bool(case.get("align")), P, t["name"], sizes)

    def signature(self, case, rec, clause):
        single = "single" if rec and rec.get("single") else "dir"
        return "%s/%s" % (clause, single)

    def sample(self, case, rec):
        if case.get("op") == "hasher1":
            return {"op": "hasher1 (scaled world)", "sizes": case["sizes"], "P": case["P"], "align": case["align"],
                    "pieces": rec.get("pieces") if rec else None}
        if case.get("op") == "hashers":
            return {"op": "hashers", "size": case["size"], "P": case["P"], "block": case.get("block", B)}
        return {"creator": case["creator"], "version": case["version"], "align": bool(case.get("align")),
                "P": case["P"], "tree": case["tree"],
                "status": rec.get("status") if rec else None,
                "recorded_files": (rec.get("meta") or {}).get("files") if rec else None}


def hasher_mc(extra=()):
    return [{"module": "HasherV2.tla", "cfg": "MC_HasherV2.cfg", "what": "three BEP52 hashers vs BEP52 reference, B=2"},
            {"module": "HasherV2.tla", "cfg": "MC_HasherV2_live.cfg", "what": "liveness: every per-file hasher run terminates"}] + list(extra)


class C01(CreateProp):
    pid = "C01"
    design_ref = "DESIGN.md section 6 C01"
    level_text = ("TLC exhaustively checks the implementation-shaped model of Hasher (HasherV1.tla) against the "
                  "BEP 3 reference for all size vectors of a scaled world, and TLC validates every recorded "
                  "create execution (boundary-size trees, library and CLI) against the reference operators "
                  "(TraceCreate.tla): file list, piece string over the listed order, recorded piece length.")
    rule = ("cases = (tree shape, file sizes from the boundary alphabet A(P), piece length, creator in "
            "{TorrentFile class, CLI}); non-trivial = some file empty or not a multiple of P; distinct by "
            "(creator, P, shape, sizes)")

    def mc(self, tier):
        return [
            {"module": "HasherV1.tla", "cfg": "MC_HasherV1.cfg", "coverage": False,
             "what": "Hasher.__next__/_handle_partial/next_file, all size vectors <=3 files x 0..9, P in {2,4}"},
            {"module": "HasherV1.tla", "cfg": "MC_HasherV1_4files.cfg", "tier": "thorough",
             "what": "4 files, sizes 0..6"},
            {"module": "HasherV1.tla", "cfg": "MC_HasherV1_m_droplast.cfg", "expect": "fail",
             "what": "mutant: trailing partial piece dropped"},
            {"module": "HasherV1.tla", "cfg": "MC_HasherV1_m_nocarry.cfg", "expect": "fail",
             "what": "mutant: partial piece not carried into next file"},
            {"module": "HasherV1.tla", "cfg": "MC_HasherV1_live.cfg",
             "what": "liveness: under weak fairness of next() every run reaches StopIteration (PROPERTY Terminates)"},
            {"module": "HasherV1.tla", "cfg": "MC_HasherV1_m_spin.cfg", "expect": "fail",
             "what": "mutant: an exhausted file is never left - TLC must find the non-terminating behaviour"},
        ]

    def cases(self, tier, rng):
        cl = ["C01.list", "C01.pieces", "C01.plen", "C01.name", "M01.impl"]
        out = []
        for n, (sh, sizes, P) in enumerate(gen_trees(tier, rng, plens(tier), 260, 12000)):
            creator = "TorrentFile" if n % 4 else "cli"
            out.append({"creator": creator, "version": 1, "P": P, "tree": mk_tree(sh, sizes, modes=modes_for(n, sizes), nv=(n // 2) % 6 if n % 4 == 1 else 0), "clauses": cl,
                        "progress": (0, 0, 1, 2)[n % 4] if n % 5 == 0 else 0})
            if n % 3 == 2:      # the content root named in other ways ("." from inside it, relative, with ".." and doubled slashes)
                sps = ("rel", "dotslash", "updown", "dbl") if sh == "S1" else ("dot", "rel", "dotslash", "updown", "absdot", "dbl", "trail", "slashdot")
                out[-1]["spelling"] = sps[(n // 3) % len(sps)]
        # the model-checked universe replayed into the real Hasher
        out += hasher1_universe("MC_HasherV1.cfg" if tier != "thorough" else "MC_HasherV1_4files.cfg",
                                ["C01.scaled", "M01.scaled"], rng, None if tier == "thorough" else 1500, aligns=(False,))
        return out


class C15(CreateProp):
    pid = "C15"
    design_ref = "DESIGN.md section 6 C15"
    level_text = ("TLC checks Hasher(align) plus the padding arithmetic of TorrentFile.assemble (HasherV1.tla: "
                  "AssembleCorrect) exhaustively in a scaled world - the arithmetic as found at the pinned commit is "
                  "kept as a must-fail variant - and validates recorded aligned creates against the padded-stream "
                  "reference: boundaries, gap lengths, pieces of the declared stream, piece count, single file. The arithmetic "
                  "facts behind it (gap in 0..P-1, gap aligns the next file, gap = 0 exactly for piece multiples, ceil-division "
                  "covers the payload) are proved for ALL naturals with TLAPS (spec/proofs/CoreLemmas.tla, thorough tier).")
    rule = ("as C01 with align=True; non-trivial = some file empty or not a multiple of P")

    def mc(self, tier):
        return [
            {"module": "HasherV1.tla", "cfg": "MC_HasherV1.cfg",
             "what": "Hasher(align) + TorrentFile.assemble padding arithmetic (fixed variant)"},
            {"module": "HasherV1.tla", "cfg": "MC_HasherV1_code.cfg", "expect": "fail",
             "what": "padding arithmetic as found at the pinned commit (size %% P, P - size) must violate AssembleCorrect"},
            {"tool": "tlapm", "module": "CoreLemmas.tla", "tier": "thorough",
             "what": "unbounded: for ALL sizes and piece lengths the padding gap lies in 0..P-1, aligns the next file to a "
                     "piece boundary, is 0 exactly for piece multiples; ceil-division covers the payload with a short last piece"},
        ]

    def cases(self, tier, rng):
        cl = ["C15.list", "C15.boundary", "C15.gap", "C15.pieces", "C15.count", "C15.single"]
        out = []
        for n, (sh, sizes, P) in enumerate(gen_trees(tier, rng, plens(tier), 260, 12000)):
            creator = "TorrentFile" if n % 4 else "cli"
            out.append({"creator": creator, "version": 1, "align": True, "P": P,
                        "tree": mk_tree(sh, sizes, modes=modes_for(n, sizes), nv=(n // 2) % 6 if n % 4 == 1 else 0), "clauses": cl,
                        "progress": (1, 2)[(n // 3) % 2] if n % 3 == 0 else 0})
        # no piece length given: whatever is chosen (and however it is adjusted) must be what is recorded AND what the
        # padding and the pieces were computed with - a bulk file above the first threshold next to many small files
        for creator in ("TorrentFile", "cli"):
            sizes = (20 * 2 ** 20 + 3,) + tuple(100 + 37 * k for k in range(13))
            out.append({"creator": creator, "version": 1, "align": True, "P": 0, "tree": mk_tree("DM", sizes), "clauses": cl, "progress": 0})
            # ... next to hundreds of small files (the padding then outweighs a tenth of the payload)
            sizes = (20 * 2 ** 20 + 3,) + tuple(1 + 7 * k for k in range(199))
            out.append({"creator": creator, "version": 1, "align": True, "P": 0, "tree": mk_tree("DW", sizes), "clauses": cl, "progress": 0})
        out += hasher1_universe("MC_HasherV1.cfg" if tier != "thorough" else "MC_HasherV1_4files.cfg",
                                ["C15.scaled", "M01.scaled"], rng, None if tier == "thorough" else 1500, aligns=(True,))
        return out


class C02(CreateProp):
    pid = "C02"
    design_ref = "DESIGN.md section 6 C02"
    level_text = ("TLC checks the three BEP 52 hashers (HasherV2.tla) against two independent formulations of the "
                  "BEP 52 tree (closed form and bottom-up, BEP52.tla) for all sizes up to 5 pieces and 4 piece "
                  "lengths, and validates recorded v2/hybrid creates of all four creators: tree mirror, roots as "
                  "nodes N(f,h,0) of the zero-padded merkle tree, empty files, piece-layer membership and content.")
    rule = ("cases = (shape, sizes from A(P), P, creator in {TorrentAssembler, TorrentFileV2, "
            "TorrentFileHybrid, CLI}, version in {2,3}); non-trivial as C01")

    def mc(self, tier):
        return hasher_mc([
            {"module": "HasherV2.tla", "cfg": "MC_HasherV2_m_padfirst.cfg", "expect": "fail",
             "what": "mutant: short first piece padded to a full piece"},
            {"module": "HasherV2.tla", "cfg": "MC_HasherV2_m_nopadlayers.cfg", "expect": "fail",
             "what": "mutant: layer hashes not padded to a power of two"},
            {"module": "Assemble.tla", "cfg": "MC_Assemble.cfg",
             "what": "v2 assembly: leaves carry RefRoot, piece layers = files larger than a piece"},
            {"module": "Assemble.tla", "cfg": "MC_Assemble_m_ge.cfg", "expect": "fail",
             "what": "mutant: size >= P decides piece-layer membership"},
        ])

    def cases(self, tier, rng):
        cl = ["C02.tree", "C02.root", "C02.empty", "C02.layers"]
        out = []
        combos = [("TorrentAssembler", 2), ("TorrentAssembler", 3), ("TorrentFileV2", 2),
                  ("TorrentFileHybrid", 3), ("cli", 2), ("cli", 3)]
        for n, (sh, sizes, P) in enumerate(gen_trees(tier, rng, plens(tier), 200, 10000)):
            # piece lengths of a MiB and more: every creator (their hashers read in different ways)
            for creator, v in (combos if P >= 2 ** 20 else [combos[n % len(combos)]]):
                out.append({"creator": creator, "version": v, "P": P, "tree": mk_tree(sh, sizes, modes=modes_for(n, sizes), nv=(n // 2) % 6 if n % 4 == 1 else 0), "clauses": cl,
                            "progress": (1, 2)[n % 2] if n % 7 == 0 else 0})
        # piece counts of 128k and 128k + 1 (where a hasher that works in segments of pieces starts a new segment) with
        # short and long tails, at 32 KiB pieces, through every creator
        for npc, tail in ((128, 0), (128, 1), (128, 5000), (129, 5000), (256, B), (257, B + 1), (128, 3 * B // 2)):
            for creator, v in combos:
                out.append({"creator": creator, "version": v, "P": 2 * B, "tree": mk_tree("D2", (npc * 2 * B + tail, 7)), "clauses": cl})
        out += hashers_scaled(["C02.hashers"], tier)
        return out


class C03(CreateProp):
    pid = "C03"
    design_ref = "DESIGN.md section 6 C03"
    level_text = ("TLC checks the hybrid hashers' v1 pieces / padding description (HasherV2.tla: PiecesCorrect) and "
                  "validates recorded hybrid creates: file-list/file-tree correspondence, piece-boundary starts, "
                  "padding entries, SHA-1 pieces of exactly the declared stream, single-file stream.")
    rule = ("cases = (shape, sizes from A(P), P, hybrid creator in {TorrentAssembler(3), "
            "TorrentFileHybrid, CLI}); non-trivial as C01")

    def mc(self, tier):
        return hasher_mc([
            {"module": "Assemble.tla", "cfg": "MC_Assemble.cfg",
             "what": "hybrid assembly (file list, padding entries, piece string, single file) for all size vectors"},
            {"module": "Assemble.tla", "cfg": "MC_Assemble_m_padsingle.cfg", "expect": "fail",
             "what": "pinned commit: single file's last piece zero-extended"}])

    def cases(self, tier, rng):
        cl = ["C03.order", "C03.boundary", "C03.padattr", "C03.pieces", "C03.single", "M03.impl"]
        out = []
        combos = [("TorrentAssembler", 3), ("TorrentFileHybrid", 3), ("cli", 3)]
        for n, (sh, sizes, P) in enumerate(gen_trees(tier, rng, plens(tier), 200, 10000)):
            for creator, v in (combos if P >= 2 ** 20 else [combos[n % len(combos)]]):
                out.append({"creator": creator, "version": v, "P": P, "tree": mk_tree(sh, sizes, modes=modes_for(n, sizes), nv=(n // 2) % 6 if n % 4 == 1 else 0), "clauses": cl,
                            "progress": (1, 2)[n % 2] if n % 7 == 0 else 0})
        return out


class C10(CreateProp):
    pid = "C10"
    design_ref = "DESIGN.md section 6 C10"
    level_text = ("TLC checks pairwise agreement of all hasher models (HasherV2.tla: AllAgree) and validates "
                  "recorded creator pairs (identical info-hash and piece layers) and hasher quadruples (root, "
                  "layer, pieces, padding equal to each other and to the BEP 52 reference; FileHasher iterator steps).")
    group_key = "group"
    rule = ("cases = creator pairs (TorrentAssembler v2 | TorrentFileV2), (TorrentAssembler hybrid | "
            "TorrentFileHybrid) on the same tree, and hasher quadruples (HasherV2, HasherHybrid, "
            "FileHasher, FileHasher hybrid) on one file; non-trivial as C01")

    def mc(self, tier):
        return hasher_mc()

    def cases(self, tier, rng):
        out = []
        g = 0
        for n, (sh, sizes, P) in enumerate(gen_trees(tier, rng, plens(tier), 120, 5000)):
            for v, pair in ((2, ("TorrentAssembler", "TorrentFileV2")), (3, ("TorrentAssembler", "TorrentFileHybrid"))):
                g += 1
                for cr in pair:
                    # (every third tree: zero runs at the head / tail / middle, repeated blocks, identical files)
                    out.append({"creator": cr, "version": v, "P": P, "tree": mk_tree(sh, sizes, modes=modes_for(6 * (n // 3), sizes) if n % 3 == 0 and sum(sizes) < 2 ** 21 else None),
                                "group": "g%d" % g, "clauses": ["C10.creators"]})
        # no piece length given: every creator has to arrive at the same automatic choice - payload sizes just above
        # the thresholds 1000 * 2^e (where a floored quotient and a true quotient disagree) and well inside a step
        for v, trio in ((2, ("TorrentAssembler", "TorrentFileV2", "cli")), (3, ("TorrentAssembler", "TorrentFileHybrid", "cli"))):
            for total in ((1000 * 2 ** 14 + 5000, 1000 * 2 ** 15 + 700) if tier != "thorough"
                          else (1000 * 2 ** 14 + 5000, 1000 * 2 ** 14 + 1, 1000 * 2 ** 15 + 700, 1001 * 2 ** 14 - 1, 1000 * 2 ** 16 + 40000)):
                g += 1
                for cr in trio:
                    out.append({"creator": cr, "version": v, "P": 0, "tree": mk_tree("D2", (total - 70001, 70001)),
                                "group": "g%d" % g, "clauses": ["C10.creators"]})
        for P in plens(tier):
            more = [k * P + d for k in range(6, 34 if P == B else 13) for d in (0, 1)]
            for s in alphabet(P) + more:
                if s > 0:
                    out.append({"op": "hashers", "size": s, "P": P, "group": "none", "chdir_between": len(out) % 4 == 0,
                                "clauses": ["C10.hashers", "C10.steps", "M10.impl"]})
                    if s % B:       # the same size with zero runs: a short all-zero last block is not a full zero block
                        out.append(dict(out[-1], mode=("ztail", "zeros", "zhead", "sparse")[len(out) % 4], chdir_between=False))
        for npc, tail in ((128, 0), (128, 1), (128, 5000), (129, 5000), (256, B), (257, B + 1), (128, 3 * B // 2), (64, 1), (512, 77)):
            out.append({"op": "hashers", "size": npc * 2 * B + tail, "P": 2 * B, "group": "none", "clauses": ["C10.hashers", "C10.steps"]})
        # hashers used directly on MiB-sized pieces / files (their read loops differ)
        M = 2 ** 20
        for P, s in ((8 * M, 12 * M), (8 * M, 4 * M), (16 * M, 20 * M + 1), (64 * M, 33 * M + 1), (64 * M, 64 * M + 1), (M, 3 * M)):
            out.append({"op": "hashers", "size": s, "P": P, "group": "none", "clauses": ["C10.hashers", "C10.steps"]})
        out += hashers_scaled(["C10.hashers", "C10.steps", "M10.impl"], tier)
        return out

    def signature(self, case, rec, clause):
        return clause


PROPS = {"C01": C01, "C02": C02, "C03": C03, "C10": C10, "C15": C15}


# ---------------------------------------------------------------------------------------------
# C08: the info dictionary depends only on payload, piece length, version, info options
# ---------------------------------------------------------------------------------------------
class C08(CreateProp):
    pid = "C08"
    group_key = "group"
    isolate = True          # relative spellings: keep process-lifetime state (C09's business) out of it
    design_ref = "DESIGN.md section 6 C08"
    level_text = ("TLC checks on Determinism.tla that the v1 and v2 file orders derived from a directory do not depend "
                  "on the OS enumeration order (all permutations of every directory of four trees whose full-path order "
                  "and per-directory order differ; the variant without sorted() must fail). Conformance: for each "
                  "payload a GROUP of creates that differ only in what must not matter - path spelling (absolute, "
                  "relative, ./x, x/, x//, zz/../x, x/., '.' from inside, doubled separator), working directory, a copy "
                  "at another location, every permutation of the enumeration order (os.listdir / os.scandir / "
                  "Path.iterdir patched), trackers / seeds / outfile name, progress 0/1/2, quiet, two clock values - "
                  "is validated by TLC: identical info-hash across the group, identical file minus creation date for "
                  "members with equal outer options, name = directory name.")
    rule = ("groups = (tree, P, version, info options private/source/comment) x ~16 metamorphic members; "
            "non-trivial = member differs from the canonical first member in spelling, cwd, location, enumeration "
            "order, outer options, progress or clock; distinct by (group, variation)")

    def mc(self, tier):
        return [{"module": "MCDeterminism.tla", "cfg": "MC_Determinism.cfg", "workers": 2,
                 "what": "file order independent of OS enumeration order, all permutations"},
                {"module": "MCDeterminism.tla", "cfg": "MC_Determinism_nosort.cfg", "expect": "fail", "workers": 2,
                 "what": "without sorted() the order depends on enumeration"}]

    def cases(self, tier, rng):
        out = []
        nbase = 400 if tier == "thorough" else 26
        g = 0
        creators = {1: ["TorrentFile", "cli"], 2: ["TorrentAssembler", "TorrentFileV2", "cli"],
                    3: ["TorrentAssembler", "TorrentFileHybrid", "cli"]}
        for b in range(nbase):
            v = (1, 2, 3)[b % 3]
            P = rng.choice(plens("quick"))
            A = alphabet(P)
            sh = ["D3", "D4", "D2n", "S1", "D2", "DN", "DC", "DCL"][b % 8] if b < 16 else rng.choice(["D3", "D4", "D2n", "S1", "D2", "DN", "DC", "DCL"])
            k = 1 if sh == "S1" else len(SHAPES[sh])
            sizes = tuple(rng.choice(A) for _ in range(k))
            if sum(sizes) == 0:
                sizes = (P + 1,) * k
            tree = mk_tree(sh, sizes, nv=b % 6 if b % 2 else 0)
            if b % 9 == 4:      # a payload literally called "~" (HOME points at an unrelated directory while it is created)
                tree = mk_tree(sh, sizes, name="~")
            infoopts = [{}, {"private": True}, {"source": "SRC", "comment": "a comment é"},
                        {"private": True, "source": "x", "comment": "y"},
                        # text that LOOKS like a template of some kind (dates, names, variables): it is plain text
                        {"comment": "snapshot %Y-%m-%d %H:%M:%S, 100% done {name} $HOME ~ %(v)s", "source": "{date} %s %j"},
                        {}][b % 6]
            g += 1
            grp = "c08-%d" % g
            cr = creators[v][b % len(creators[v])]
            base = {"creator": cr, "version": v, "P": P, "tree": tree, "group": grp, "opts": dict(infoopts),
                    "outer": "plain", "clauses": ["C08.info", "C08.rest", "C08.name"]}
            if b % 3 == 0 and (b // 3) % 2 == 1:       # v1 groups: half of them with --align (same for all members)
                base["align"] = True
                if sizes[-1] % P == 0:                 # ... and a last file that does not fill its piece
                    sizes = sizes[:-1] + (sizes[-1] + 1 + b,)
                    base["tree"] = tree = mk_tree(sh, sizes, nv=b % 6 if b % 2 else 0)
            members = [dict(base)]                                   # canonical: absolute path
            dir_sp = ["rel", "dotslash", "updown", "absdot", "dbl", "symparent", "symparentrel"] + (
                [] if sh == "S1" else ["trail", "trail2", "slashdot", "dot"])
            if sh == "S1":
                dir_sp = ["rel", "dotslash", "updown", "dbl", "symparent"]
            for sp in dir_sp:
                members.append(dict(base, spelling=sp))
            members.append(dict(base, cwd_mode="elsewhere"))
            members.append(dict(base, copy=True))
            members.append(dict(base, copy=True, spelling="rel"))
            nperm = 6 if tier == "thorough" else 3
            for pm in range(1, 1 + nperm):
                members.append(dict(base, enum_perm=pm * 5 + b))
            members.append(dict(base, clock=1000000000))
            members.append(dict(base, clock=1700000000, progress=1))
            members.append(dict(base, progress=2))
            if cr == "cli":
                members.append(dict(base, pre=["-q"]))
            o1 = dict(infoopts, announce=["http://t1.example/a", "http://t2.example/a"], url_list=["http://w.example/"])
            members.append(dict(base, opts=o1, outer="trackers"))
            members.append(dict(base, opts=o1, outer="trackers", clock=1234567890, enum_perm=3 + b))
            o2 = dict(infoopts, httpseeds=["http://h.example/"], announce=["http://other/"])
            members.append(dict(base, opts=o2, outer="seeds", outname="other-name.torrent"))
            members.append(dict(base, outname="zzz.torrent", spelling="rel"))
            if cr != "cli":     # one creator object used twice / a second object for another payload used in between
                members.append(dict(base, reuse="twice"))
                members.append(dict(base, reuse="other_first", opts=o1, outer="trackers"))
            # brand-new interpreters with other string-hash seeds: nothing may depend on set / dict iteration order
            for hs in (1, 2, 12345):
                members.append(dict(base, hashseed=hs))
            # the same payload with other permission bits (executable, read-only ...) and old time stamps
            members.append(dict(base, file_meta=1 + b))
            members.append(dict(base, file_meta=3 + b, copy=True))
            # the content path swallowed by a list-valued option (last value of -a / --web-seed / --http-seed on the
            # command line, last element of the list through the library): recovered, and nothing of the list may leak
            members.append(dict(base, opts=o1, outer="trackers", swallowed="A"))
            members.append(dict(base, opts=o1, outer="trackers", swallowed="W"))
            members.append(dict(base, opts=o2, outer="seeds", outname="other-name.torrent", swallowed="H"))
            if sh != "S1":          # the output path lies inside the content directory
                members.append(dict(base, out_inside=True))
                members.append(dict(base, out_inside=True, spelling="rel", progress=1))
            out.extend(members)
        # payloads of a few MB (the progress bars then count in MiB): progress / quiet / verbose must not matter
        for v in (1, 2, 3):
            g += 1
            tree = mk_tree("D2", (2 * 2 ** 20 + 17, 2 ** 20 - 1), name="big%d" % v)
            base = {"creator": "cli", "version": v, "P": 16 * B, "tree": tree, "group": "c08-%d" % g, "opts": {},
                    "outer": "plain", "clauses": ["C08.info", "C08.rest", "C08.name"]}
            out.extend([dict(base), dict(base, progress=1), dict(base, progress=2), dict(base, pre=["-q"]),
                        dict(base, pre=["-v"], progress=1), dict(base, creator=creators[v][0], progress=2)])
        return out

    def nontrivial(self, case):
        var = tuple(sorted((k, str(v)) for k, v in case.items()
                           if k in ("spelling", "cwd_mode", "copy", "enum_perm", "clock", "progress", "outer", "outname", "pre", "out_inside",
                                    "file_meta", "swallowed", "reuse", "hashseed")))
        if not var or var == (("outer", "plain"),):
            return None
        return (case["group"], var)

    def signature(self, case, rec, clause):
        return "%s/%s" % (clause, (case or {}).get("spelling", "abs"))

    def sample(self, case, rec):
        return {k: v for k, v in case.items() if k not in ("clauses",)}


PROPS["C08"] = C08
