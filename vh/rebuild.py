"""Driver for rebuild (C13, C14, C19): scatter candidate files over search directories in an
imposed enumeration order, run Assembler through its public API under the filesystem tracer
(which also DENIES mutations outside the sandbox), and abstract what happened."""
import os

from . import alpha, fstrace, refenc
from .core import content, hexs, new_sandbox, rm, sha1, snapshot, write_file
from .create import create_meta


def _orig(tree, f):
    return content(alpha.tree_key(tree, f), f["size"], f.get("gen", 0), mode=f.get("mode", "rand"))


def candidate_bytes(tree, f, cls, k, P):
    data = _orig(tree, f)
    n = len(data)
    if cls == "intact":
        return data
    if cls == "decoy_all":
        # differs from the original at EVERY byte position (x -> x+1+k in 1..255), so that no piece
        # - not even one that holds a single byte of this file - can verify by coincidence
        step = 1 + (k % 200)
        table = bytes(((b - 1 + step) % 255) + 1 if b else 0 for b in range(256))
        return data.translate(table)
    if cls == "decoy_some":          # equal except in the last byte: every earlier piece verifies
        if n == 0:
            return data
        return data[:-1] + bytes([data[-1] ^ 0xFF])
    if cls == "decoy_head":          # differs only in the first byte
        if n == 0:
            return data
        return bytes([data[0] ^ 0xFF]) + data[1:]
    if cls == "longer":
        return data + b"\x01"
    if cls == "shorter":
        return data[:max(0, n - 1)]
    raise ValueError(cls)


class _SortedListing:
    """Impose the enumeration order: os.listdir / os.scandir (hence os.walk, Path.iterdir, glob)
    return entries sorted by name (candidate directories are named so that sorted order = the
    order the case prescribes)."""

    def __enter__(self):
        self.real_listdir, self.real_scandir = os.listdir, os.scandir
        real_listdir, real_scandir = self.real_listdir, self.real_scandir
        os.listdir = lambda path=".": sorted(real_listdir(path))

        class _Scan:
            """os.scandir replacement: a real iterator (os.walk calls next() on it) over the
            entries sorted by name."""

            def __init__(self, path):
                self._it = real_scandir(path)
                self._sorted = None

            def __enter__(self):
                return self

            def __exit__(self, *a):
                self._it.close()
                return False

            def close(self):
                self._it.close()

            def __iter__(self):
                return self

            def __next__(self):
                if self._sorted is None:
                    self._sorted = iter(sorted(self._it, key=lambda e: e.name))
                return next(self._sorted)
        os.scandir = lambda path=".": _Scan(path)
        return self

    def __exit__(self, *a):
        os.listdir, os.scandir = self.real_listdir, self.real_scandir
        return False


def build_metafile(case, payload_root, out):
    tree, P, v = case["tree"], case["P"], case["version"]
    if case.get("meta_src", "own") == "own":
        creator = "TorrentFile" if v == 1 else "TorrentAssembler"
        return create_meta({"creator": creator, "version": v, "P": P, "align": bool(case.get("align")) and v == 1},
                           payload_root, out)
    files = [(list(f["path"]), _orig(tree, f)) for f in tree["files"]]
    kw = {}
    if case.get("extra_keys"):
        kw["extra_info"] = {"x-unknown": [1, "a"], "source": "elsewhere"}
        kw["extra_top"] = {"comment": "c", "zzz": 2 ** 40, "url-list": "http://w.example/f", "announce": "http://t.example/a"}
        kw["attrs"] = True
    raw = refenc.build(case.get("meta_name", tree["name"]), [(list(f.get("meta_path", f["path"])), d) for f, (_, d) in zip(tree["files"], files)],
                       P, v, single=bool(tree.get("single")), pads="bep47" if case.get("align") and v == 1 else "none",
                       trailing_pad=bool(case.get("trailing_pad")), **kw)
    if case.get("type_hostile") is not None:
        raw = _type_hostile(raw, case["type_hostile"], v)
    write_file(out, raw)
    return "ok"


def _type_hostile(raw, k, v):
    """Values of unexpected TYPES in the places rebuild turns into paths and sizes."""
    from .core import bdecode_strict, bencode
    d = bdecode_strict(raw)[0].py()
    info = d[b"info"]
    if k == 0:
        info[b"name"] = [b"..", b"up"]                       # name is a list
    elif k == 1:
        info[b"name"] = 7                                    # name is an integer
    elif k == 2 and b"files" in info:
        info[b"files"][0][b"path"] = [b"..", 5, b"x"]        # integer path element
    elif k == 3 and b"files" in info:
        info[b"files"][0][b"path"] = []                      # empty path
    elif k == 4 and b"files" in info:
        info[b"files"][0][b"length"] = -5                    # negative length
    elif k == 5 and b"files" in info:
        info[b"files"][-1][b"length"] = 2 ** 70              # absurd length
    elif k == 6 and b"file tree" in info:
        tree = info[b"file tree"]
        key = sorted(tree)[0]
        tree[key][b".."] = {b"": {b"length": 3, b"pieces root": bytes(32)}}      # a node that is file AND directory
    elif k == 7 and b"file tree" in info:
        info[b"file tree"][b""] = {b"length": 1}             # file marker at the root of the tree
    elif k == 8:
        info[b"piece length"] = b"16384"                     # piece length is a string
    elif k == 10:
        # byte strings that are not valid UTF-8 and turn into '..' once the invalid bytes are dropped
        if b"files" in info:
            info[b"files"][0][b"path"] = [b".\xff.", b"\xfe..", info[b"files"][0][b"path"][-1]]
        if b"file tree" in info:
            tree = info[b"file tree"]
            key = sorted(tree)[0]
            tree[b".\xff."] = {b"\xfe..": {key: tree.pop(key)}}
    elif k == 11:
        info[b"name"] = b"\xff.\xff."
    elif k == 9 and b"files" in info:
        info[b"files"][0][b"path"] = [[b"..", b"y"]]         # nested list as path element
    return bencode(d)


def _subst(case, sbx):
    """Hostile absolute components point into the sandbox's own scratch area."""
    import copy
    case = copy.deepcopy(case)
    rep = lambda s: s.replace("@SBX@", sbx)
    if "meta_name" in case:
        case["meta_name"] = rep(case["meta_name"])
    for f in case["tree"]["files"]:
        if "meta_path" in f:
            f["meta_path"] = [rep(c) for c in f["meta_path"]]
    return case


def run_pathres(case):
    """One world of PathRes.tla (a destination pre-state with symbolic links + one metafile entry whose
    elements may be hostile) replayed into the real rebuild: model path <<"s", ...>> = <sandbox>/..."""
    sbx = new_sandbox("pr")
    try:
        w, v, P = case["world"], case["version"], case["P"]
        rec = {"id": case["id"], "op": "pathres", "clauses": list(case["clauses"]), "version": v, "P": P, "status": "ok",
               "world": {k: w[k] for k in ("dirs", "files", "links", "dest", "entry")},
               "touched": [], "outside_ops": [], "outside_changed": [], "denied": [], "count": -1}
        real = lambda p: os.path.join(sbx, *p[1:]) if p and p[0] == "s" else os.path.join(sbx, "abs", "elsewhere", *p)
        for d in sorted(w["dirs"], key=len):
            os.makedirs(real(d), exist_ok=True)
        for f in w["files"]:
            write_file(real(f), b"old: 6")
        for lp, lt in w["links"]:
            os.makedirs(os.path.dirname(real(lp)), exist_ok=True)
            os.symlink(real(lt), real(lp))
        elem = lambda e: ("/" + real(e["comps"]).lstrip("/") if e["abs"] else "/".join(e["comps"]))
        entry = [elem(e) for e in w["entry"]]
        data = content("pathres/f", P + 5)
        raw = refenc.build(entry[0], [(entry[1:], data)], P, v, single=False)
        mpath = os.path.join(sbx, "metas", "t.torrent")
        write_file(mpath, raw)
        write_file(os.path.join(sbx, "search", "k0", entry[-1]), data)
        os.makedirs(os.path.join(sbx, "abs"), exist_ok=True)
        before = snapshot(sbx)
        dest = real(w["dest"][:1]) if False else os.path.join(sbx, *w["dest"][1:])      # spelled as given (may contain "..")
        fstrace.start([sbx])
        try:
            with _SortedListing():
                from torrentfile.rebuild import Assembler
                asm = Assembler([mpath], [os.path.join(sbx, "search")], dest)
                rec["count"] = asm.assemble_torrents()
        except SystemExit as ex:
            rec["status"] = "exit:%s" % ex.code
        except Exception as ex:
            rec["status"] = "exc:" + type(ex).__name__
        finally:
            log = fstrace.stop()
        if not isinstance(rec["count"], int):
            rec["count"] = -1
        after = snapshot(sbx)
        changed = sorted(r for r in set(before) | set(after) if before.get(r) != after.get(r))
        rec["touched"] = [["s"] + r.split(os.sep) for r in changed]
        rdest = os.path.realpath(os.path.join(sbx, "dest"))
        rec["outside_changed"] = sorted(hexs(r) for r in changed if not (r + os.sep).startswith("dest" + os.sep))
        rec["denied"] = sorted(hexs(p) for p in log["denied"])
        for e in log["log"]:
            if e["kind"] == "denied":
                continue
            ap = os.path.realpath(e["path"])
            if not (ap == rdest or ap.startswith(rdest + os.sep)):
                rec["outside_ops"].append({"kind": e["kind"], "path": hexs(os.path.relpath(ap, sbx))})
        return rec
    finally:
        rm(sbx)


def run_rebuild(case):
    if case.get("op") == "pathres":
        return run_pathres(case)
    sbx = new_sandbox("rb")
    try:
        case = _subst(case, sbx)
        P, v = case["P"], case["version"]
        trees = [case["tree"]] + list(case.get("more_trees", []))
        clauses = list(case["clauses"])
        if case.get("file_arg") or case.get("nested_search"):
            # the enumeration then contains a candidate twice / in another order than the record says:
            # the implementation-model comparison is not meaningful for these scenarios
            clauses = [c for c in clauses if not c.startswith("M")]
        rec = {"id": case["id"], "op": "rebuild", "clauses": clauses, "version": v, "P": P,
               "status": "ok", "count": -1, "files": [], "written": [], "sources_unchanged": True,
               "metas_unchanged": True, "outside_ops": [], "outside_changed": [], "denied": [], "runs": 1,
               "present_after": 0, "ntorrents": len(trees), "stream_order": []}
        # 1. original payloads (only to create the metafiles from), then removed
        # (odd_metas: the metafile directory and the metafiles carry names with pattern characters / a leading dot)
        mname = "queue [done] *?" if case.get("odd_metas") else "metas"
        mdir = os.path.join(sbx, mname)
        os.makedirs(mdir)
        mpaths = []
        for ti, tree in enumerate(trees):
            proot = alpha.materialize(tree, os.path.join(sbx, "orig%d" % ti))
            # (the second metafile of a batch carries an upper-case extension)
            mpath = os.path.join(mdir, "t%d.%s" % (ti, "TORRENT" if ti == 1 else "torrent"))
            if case.get("odd_metas"):
                mpath = os.path.join(mdir, (".t%d.torrent", "t[%d].TORRENT", "-t*%d?.torrent")[ti % 3] % ti)
            sub = {k: v2 for k, v2 in dict(case, tree=tree).items() if k != "meta_name" or (ti == 0 and v2 is not None)}
            # a batch may mix piece lengths and versions: per-torrent overrides
            sub["P"] = tree.get("P", sub["P"])
            sub["version"] = tree.get("version", sub["version"])
            st = build_metafile(sub, proot, mpath)
            if st != "ok":
                rec["status"] = "create:" + st
                return rec
            mpaths.append(mpath)
            rm(os.path.join(sbx, "orig%d" % ti))
        if len(trees) > 1:                # things a metafile directory may also hold
            write_file(os.path.join(mdir, "notes.txt"), b"not a metafile")
            write_file(os.path.join(mdir, "sub", "nested.torrent.bak"), b"ignored")
        # 2. search directories with candidates in imposed order
        # (search directories may be named so that they share a character prefix with the destination "dest")
        snames = case.get("search_names") or ["search%d" % i for i in range(case.get("nsearch", 1))]
        sdirs = [os.path.join(sbx, nm) for nm in snames]
        for d in sdirs:
            os.makedirs(d)
        cand_bytes = {}
        written = {}
        nse0 = len(sdirs)           # number of search directories the candidates are spread over
        names = []
        for ti, tree in enumerate(trees):
            single = bool(tree.get("single"))
            name = (case.get("meta_name") if ti == 0 else None) or tree["name"]
            names.append(name)
            for fi, f in enumerate(tree["files"]):
                if single:
                    fname = os.path.basename(name.rstrip("/")) or name
                else:
                    fname = (f.get("meta_path") or f["path"])[-1]
                for k, c in enumerate(f.get("cands", [])):
                    if c.get("shared"):
                        continue                   # served by the identical, same-named copy of another entry
                    if f["size"] == 0 and c["cls"] in ("shorter", "decoy_all", "decoy_some", "decoy_head"):
                        c["cls"] = "intact"        # for an empty file these are the empty file itself
                    sd = sdirs[c.get("search", 0) % len(sdirs)]
                    sub = ["k%02d-t%d-f%d" % (k, ti, fi)] + ["deep"] * c.get("depth", 0)
                    if c.get("under_named_dir"):      # ... below a directory that carries the wanted file's own name
                        sub = sub + [fname]
                    data = candidate_bytes(tree, f, c["cls"], k, P)
                    if c.get("as_symlink"):        # the candidate is a symbolic link to a file kept elsewhere
                        store = os.path.join(sbx, "abs", "store-%d-%d-%d" % (ti, fi, k))
                        write_file(store, data)
                        os.makedirs(os.path.join(sd, *sub), exist_ok=True)
                        os.symlink(store, os.path.join(sd, *sub, fname))
                        cand_bytes[(ti, fi, k)] = data
                        continue
                    twin = written.get(data) if case.get("hardlink_cands") and data else None
                    if twin:        # de-duplicated search directory: identical files are hard links of one another
                        os.makedirs(os.path.join(sd, *sub), exist_ok=True)
                        os.link(twin, os.path.join(sd, *sub, fname))
                    else:
                        write_file(os.path.join(sd, *sub, fname), data)
                        written[data] = os.path.join(sd, *sub, fname)
                    cand_bytes[(ti, fi, k)] = data
        if case.get("dir_named_like_file"):      # a DIRECTORY that carries the name of a wanted file, and a dangling link
            f0 = trees[0]["files"][0]
            nm0 = (f0.get("meta_path") or f0["path"] or [names[0]])[-1]
            os.makedirs(os.path.join(sdirs[0], "aa-dirs", nm0, "inner"), exist_ok=True)
            os.makedirs(os.path.join(sdirs[0], "aa-links"), exist_ok=True)
            os.symlink(os.path.join(sbx, "abs", "nowhere"), os.path.join(sdirs[0], "aa-links", nm0))
        for u in range(case.get("unrelated", 1)):
            write_file(os.path.join(sdirs[0], "zz-unrelated", "other%d.bin" % u), content("unrelated/%d" % u, 1000 + u))
        # 3. destination pre-state
        # (a "lonely" destination lies below directories that hold nothing else, and may not exist yet)
        dest_rel = os.path.join("lone", "deeper", "dest") if case.get("lonely_dest") else "dest"
        if case.get("dest_is_name") and names and "/" not in names[0] and names[0] not in ("", ".", ".."):
            dest_rel = os.path.join("seeding", names[0])       # the destination carries the torrent's own name
        dest = os.path.join(sbx, dest_rel)
        os.makedirs(dest)
        if case.get("file_in_way"):      # a FILE sits where the metafile wants a directory
            f0 = trees[0]["files"][0]
            comps0 = list(f0.get("meta_path") or f0["path"])
            if len(comps0) > 1:
                write_file(os.path.join(dest, names[0], comps0[0]), b"a file, not a directory")
        if case.get("dest_absent"):
            os.rmdir(dest)

        def dest_path(ti, f):
            tree = trees[ti]
            comps = list(f.get("meta_path") or f["path"])
            return os.path.join(dest, names[ti], *comps) if not tree.get("single") else os.path.join(dest, names[ti])
        pre = {}
        for ti, tree in enumerate(trees):
            for fi, f in enumerate(tree["files"]):
                dp = f.get("dest_pre", "absent")
                if dp == "absent" or case.get("hostile"):
                    continue
                data = _orig(tree, f)
                if dp == "unrelated":
                    write_file(os.path.join(dest, "unrelated-%d-%d.txt" % (ti, fi)), b"keep me")
                    continue
                b = {"correct": data, "wrong_full": content("wrongfull/%d/%d" % (ti, fi), len(data), 3),
                     "shorter": data[:len(data) // 2],
                     # an interrupted earlier copy: right bytes, then a torn tail
                     "shorter_dirty": data[:max(0, len(data) * 3 // 4 - 50)] + b"\xee" * min(50, len(data) * 3 // 4)}.get(dp, b"")
                write_file(dest_path(ti, f), b)
                if case["id"] % 2:        # put there days ago: older than every candidate in the search directories
                    os.utime(dest_path(ti, f), (1.6e9, 1.6e9))
                pre[(ti, fi)] = b
        os.makedirs(os.path.join(sbx, "abs"), exist_ok=True)
        # symbolic links that already exist INSIDE the destination and lead out of it: at the position of a file
        # (dangling, or to a smaller file), of a directory on the way, or of the torrent's top directory
        for dl in case.get("dest_links", []):
            f = trees[0]["files"][dl["file"]]
            comps = [names[0]] + ([] if trees[0].get("single") else list(f.get("meta_path") or f["path"]))
            out_dir = os.path.join(sbx, "abs", "outside-%d" % dl["file"])
            os.makedirs(out_dir, exist_ok=True)
            if dl["kind"] in ("dangling", "small"):
                os.makedirs(os.path.join(dest, *comps[:-1]), exist_ok=True)
                tgt = os.path.join(out_dir, "victim.cfg")
                if dl["kind"] == "small":
                    write_file(tgt, b"keep me: 11")
                if not os.path.lexists(os.path.join(dest, *comps)):
                    os.symlink(tgt, os.path.join(dest, *comps))
            else:
                depth = 1 if dl["kind"] == "top" else min(2, len(comps) - 1)
                if depth >= 1 and not os.path.lexists(os.path.join(dest, *comps[:depth])):
                    os.makedirs(os.path.join(dest, *comps[:depth - 1]), exist_ok=True)
                    os.symlink(out_dir, os.path.join(dest, *comps[:depth]))
        if case.get("file_arg"):          # one search argument is the path of a candidate FILE
            for dp, dns, fns in os.walk(sdirs[0]):
                dns.sort()
                if fns and "zz-unrelated" not in dp and "aa-" not in dp:
                    sdirs = sdirs + [os.path.join(dp, sorted(fns)[0])]
                    break
        if case.get("nested_search"):     # the same directory is reachable through two search arguments
            sdirs = sdirs + [os.path.join(sdirs[0], d) for d in sorted(os.listdir(sdirs[0]))[:1]]
        if case.get("hostile") and case.get("victims"):
            # somebody else's file already sits where each escaping entry points: it must survive untouched
            # (overwritten, truncated, deleted by a clean-up ... all show in the snapshot)
            for ti, tree in enumerate(trees):
                for fi, f in enumerate(tree["files"]):
                    tp = os.path.normpath(dest_path(ti, f))
                    inside = lambda p, d: p == d or p.startswith(d + os.sep)
                    if inside(tp, sbx) and not inside(tp, dest) and not any(inside(tp, d) for d in sdirs) \
                            and not os.path.lexists(tp) and not os.path.isfile(os.path.dirname(tp)):
                        try:
                            write_file(tp, b"somebody else's file %d/%d" % (ti, fi))
                        except OSError:
                            pass
        if not case.get("dest_absent"):     # (a link to a directory that does not exist yet would change its kind in the snapshot)
            os.symlink(dest, os.path.join(sbx, "destlink"))
        os.symlink(sdirs[0], os.path.join(sbx, "searchlink"))
        before = snapshot(sbx)
        # 4. run
        cwd0 = os.getcwd()
        fstrace.start([sbx])
        try:
            with _SortedListing():
                from torrentfile.rebuild import Assembler
                runs = (3 if case.get("repeat") == 3 else 2) if case.get("repeat") else 1
                rec["runs"] = runs
                marg = [mdir] if len(trees) > 1 else [mpaths[0]]
                if case.get("meta_args") == "files":        # every metafile its own argument
                    marg = list(mpaths)
                elif case.get("meta_args") == "both":       # the directory and one of its files again
                    marg = [mdir, mpaths[-1]]
                if case.get("rel_paths"):      # every path spelled relative to the working directory
                    os.chdir(sbx)
                    marg = [os.path.relpath(m, sbx) for m in marg]
                    sdirs = [os.path.relpath(d, sbx) for d in sdirs]
                    dest = os.path.relpath(dest, sbx)
                if case.get("dest_dot"):       # the destination is the working directory itself
                    os.chdir(os.path.join(sbx, "dest"))
                    marg = [os.path.abspath(os.path.join(sbx, m)) if not os.path.isabs(m) else m for m in marg]
                    sdirs = [os.path.abspath(os.path.join(sbx, d)) if not os.path.isabs(d) else d for d in sdirs]
                    dest = case["dest_dot"]
                # the destination / a search directory named through a symbolic link or with a ".." element
                dest_arg, sarg = dest, list(sdirs)
                sp = case.get("dest_spelling")
                if sp and not case.get("dest_dot"):
                    base = os.path.dirname(dest)
                    dest_arg = os.path.join(base, "destlink") if sp == "symlink" else os.path.join(base, mname, "..", "dest")
                if case.get("search_spelling") and not case.get("file_arg") and not case.get("nested_search"):
                    base = os.path.dirname(sarg[0])
                    sarg[0] = (os.path.join(base, "searchlink") if case["search_spelling"] == "symlink"
                               else os.path.join(base, "dest", "..", os.path.basename(sarg[0])))
                asm = None
                for _ in range(runs):
                    if case.get("route") == "cli":
                        from torrentfile.cli import execute
                        rec["count"] = execute(["rebuild", "-m"] + marg + ["-c"] + sarg + ["-d", dest_arg])
                    elif case.get("reuse_obj") and asm is not None:
                        # ONE Assembler object asked again after its first output was moved away: a second job of the
                        # same object has to restore everything again
                        with fstrace.suspended():
                            import shutil
                            for nm in os.listdir(os.path.join(sbx, dest_rel)):
                                p = os.path.join(sbx, dest_rel, nm)
                                shutil.rmtree(p) if os.path.isdir(p) and not os.path.islink(p) else os.remove(p)
                        rec["count"] = asm.assemble_torrents()
                    else:
                        asm = Assembler(marg, sarg, dest_arg)
                        rec["count"] = asm.assemble_torrents()
        except SystemExit as ex:
            rec["status"] = "exit:%s" % ex.code
        except Exception as ex:
            rec["status"] = "exc:" + type(ex).__name__
        finally:
            log = fstrace.stop()
            os.chdir(cwd0)
            if case.get("rel_paths") and not case.get("dest_dot"):
                sdirs = [os.path.join(sbx, d) if not os.path.isabs(d) else d for d in sdirs]
                dest = os.path.join(sbx, dest)
            if case.get("dest_dot"):
                dest = os.path.join(sbx, "dest")
        if not isinstance(rec["count"], int):
            rec["count"] = -1
        after = snapshot(sbx)

        # 5. abstraction
        def area(rel):
            top = rel.split(os.sep)[0]
            if rel == dest_rel or rel.startswith(dest_rel + os.sep):
                return "D"
            if case.get("lonely_dest") and top == "lone":
                return "E"
            if top.startswith("search") or top in snames:
                return "S"
            if top == mname:
                return "M"
            return "E"
        changed = [r for r in set(before) | set(after) if before.get(r) != after.get(r)]
        rec["sources_unchanged"] = not any(area(r) == "S" for r in changed)
        rec["metas_unchanged"] = not any(area(r) == "M" for r in changed)
        rec["outside_changed"] = sorted(hexs(r) for r in changed if area(r) == "E")
        rec["denied"] = sorted(hexs(p) for p in log["denied"])
        rdest = os.path.realpath(dest)
        for e in log["log"]:
            if e["kind"] == "denied":
                continue
            ap = os.path.realpath(e["path"])
            if not (ap == rdest or ap.startswith(rdest + os.sep)):
                rec["outside_ops"].append({"kind": e["kind"], "path": hexs(os.path.relpath(ap, sbx))})
        recorded = {}
        nse = nse0
        for ti, tree in enumerate(trees):
            for fi, f in enumerate(tree["files"]):
                recorded[os.path.relpath(dest_path(ti, f), sbx)] = (ti, fi)
        for ti, tree in enumerate(trees):
            for fi, f in enumerate(tree["files"]):
                dp = os.path.relpath(dest_path(ti, f), sbx)
                data = _orig(tree, f)
                if case.get("hostile"):
                    state = "n/a"
                elif dp not in after or after[dp][0] != "f":
                    state = "absent"
                else:
                    with open(os.path.join(sbx, dp), "rb") as fh:
                        b = fh.read()
                    if (ti, fi) in pre and b == pre[(ti, fi)]:
                        state = "pre"
                    elif b == data:
                        state = "intact"
                    else:
                        ks = [k for (t2, i2, k), cb in cand_bytes.items() if (t2, i2) == (ti, fi) and cb == b]
                        state = "cand:" + f["cands"][ks[0]]["cls"] if ks else "other"
                # candidates in the order the tool enumerates them: search directory, then directory name
                order = sorted(range(len(f.get("cands", []))), key=lambda k: (f["cands"][k].get("search", 0) % nse, k))
                rec["files"].append({"torrent": ti, "path": [hexs(c) for c in f["path"]], "length": f["size"],
                                     "cands": [f["cands"][k]["cls"] for k in order],
                                     # how often the file may legitimately be counted: once per mention of its metafile,
                                     # and once per job when one Assembler object (whose counter runs on) did several
                                     "given": (2 if case.get("meta_args") == "both" and ti == len(trees) - 1 else 1)
                                              * (rec["runs"] if case.get("reuse_obj") else 1),
                                     "dest_pre": f.get("dest_pre", "absent") if not case.get("hostile") else "absent",
                                     "pre_intact": (ti, fi) in pre and pre[(ti, fi)] == data, "after": state})
        for r in changed:
            if area(r) != "D" or r not in after or after[r][0] != "f":
                continue
            with open(os.path.join(sbx, r), "rb") as fh:
                b = fh.read()
            key = recorded.get(r)
            is_copy = key is not None and any(cb == b for (t2, i2, k), cb in cand_bytes.items() if (t2, i2) == key)
            rec["written"].append({"recorded": key is not None, "file": (key[1] + 1) if key else 0,
                                   "copy_of_candidate": bool(is_copy),
                                   "length_ok": key is not None and len(b) == trees[key[0]]["files"][key[1]]["size"]})
        if case.get("txn"):
            # RebuildTxn.tla's view of the run: the kinds of the entries in listed order, and which "plain" ones are in place
            rec["txn"] = list(case["txn"])
            rec["placed"] = []
            for fi, f in enumerate(trees[0]["files"]):
                if f.get("txn_role") == "plain":
                    dp = dest_path(0, f)
                    if os.path.isfile(dp) and not os.path.islink(dp):
                        with open(dp, "rb") as fh:
                            if fh.read() == _orig(trees[0], f):
                                rec["placed"].append(f["txn_entry"])
        rec["present_after"] = sum(1 for x in rec["files"] if x["after"] not in ("absent", "n/a"))
        # order of the files in the v1 stream of the (first) metafile: indexes into rec["files"]
        rec["stream_order"] = list(range(1, len(trees[0]["files"]) + 1))
        rec["stream"] = [{"f": k, "len": f["size"]} for k, f in enumerate(trees[0]["files"], 1)]
        try:
            from .core import bdecode_strict
            with open(mpaths[0], "rb") as fh:
                rootn, _, _ = bdecode_strict(fh.read())
            fl = rootn.get(b"info").get(b"files")
            if fl is not None and not case.get("hostile"):
                idx = {tuple(f.get("meta_path") or f["path"]): n + 1 for n, f in enumerate(trees[0]["files"])}
                order = [idx.get(tuple(c.val.decode() for c in e.get(b"path").val)) for e in fl.val
                         if e.get(b"attr") is None]
                if all(o is not None for o in order) and len(order) == len(idx):
                    rec["stream_order"] = order
                    # the whole v1 list in order: payload files (index into rec["files"]) and padding entries (f = 0)
                    rec["stream"] = [{"f": 0, "len": e.get(b"length").val} if e.get(b"attr") is not None else
                                     {"f": idx[tuple(c.val.decode() for c in e.get(b"path").val)], "len": e.get(b"length").val}
                                     for e in fl.val]
        except Exception:
            pass
        return rec
    finally:
        rm(sbx)
