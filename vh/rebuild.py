"""Driver for rebuild (C13, C14, C19): scatter candidate files over search directories in an
imposed enumeration order, run Assembler through its public API under the filesystem tracer
(which also DENIES mutations outside the sandbox), and abstract what happened."""
import os

from . import alpha, fstrace, refenc
from .core import content, hexs, new_sandbox, rm, sha1, snapshot, write_file
from .create import create_meta


def _orig(tree, f):
    return content(alpha.tree_key(tree, f), f["size"], f.get("gen", 0))


def candidate_bytes(tree, f, cls, k, P):
    data = _orig(tree, f)
    n = len(data)
    if cls == "intact":
        return data
    if cls == "decoy_all":
        return content("decoy/%s/%d" % (alpha.tree_key(tree, f), k), n, 7)
    if cls == "decoy_some":          # equal except in the last byte: every earlier piece verifies
        if n == 0:
            return data
        return data[:-1] + bytes([data[-1] ^ 0xFF])
    if cls == "decoy_head":          # differs only in the first byte
        if n == 0:
            return data
        return bytes([data[0] ^ 0xFF]) + data[1:]
    if cls == "longer":
        return data + b"\x01"
    if cls == "shorter":
        return data[:max(0, n - 1)]
    raise ValueError(cls)


class _SortedListing:
    """Impose the enumeration order: os.listdir returns names sorted (candidate directories are
    named so that sorted order = the order the case prescribes)."""

    def __enter__(self):
        self.real = os.listdir
        real = self.real
        os.listdir = lambda path=".": sorted(real(path))
        return self

    def __exit__(self, *a):
        os.listdir = self.real
        return False


def build_metafile(case, payload_root, out):
    tree, P, v = case["tree"], case["P"], case["version"]
    if case.get("meta_src", "own") == "own":
        creator = "TorrentFile" if v == 1 else "TorrentAssembler"
        return create_meta({"creator": creator, "version": v, "P": P}, payload_root, out)
    files = [(list(f["path"]), _orig(tree, f)) for f in tree["files"]]
    raw = refenc.build(case.get("meta_name", tree["name"]), [(list(f.get("meta_path", f["path"])), d) for f, (_, d) in zip(tree["files"], files)],
                       P, v, single=bool(tree.get("single")))
    write_file(out, raw)
    return "ok"


def _subst(case, sbx):
    """Hostile absolute components point into the sandbox's own scratch area."""
    import copy
    case = copy.deepcopy(case)
    rep = lambda s: s.replace("@SBX@", sbx)
    if "meta_name" in case:
        case["meta_name"] = rep(case["meta_name"])
    for f in case["tree"]["files"]:
        if "meta_path" in f:
            f["meta_path"] = [rep(c) for c in f["meta_path"]]
    return case


def run_rebuild(case):
    sbx = new_sandbox("rb")
    try:
        case = _subst(case, sbx)
        tree, P, v = case["tree"], case["P"], case["version"]
        single = bool(tree.get("single"))
        # 1. original payload (only to create the metafile from), then removed
        proot = alpha.materialize(tree, os.path.join(sbx, "orig"))
        mdir = os.path.join(sbx, "metas")
        os.makedirs(mdir)
        mpath = os.path.join(mdir, "t.torrent")
        st = build_metafile(case, proot, mpath)
        rec = {"id": case["id"], "op": "rebuild", "clauses": case["clauses"], "version": v, "P": P,
               "status": "ok", "count": -1, "files": [], "written": [], "sources_unchanged": True,
               "metas_unchanged": True, "outside_ops": [], "outside_changed": [], "denied": [], "runs": 1}
        if st != "ok":
            rec["status"] = "create:" + st
            return rec
        rm(os.path.join(sbx, "orig"))
        # 2. search directories with candidates in imposed order
        sdirs = [os.path.join(sbx, "search%d" % i) for i in range(case.get("nsearch", 1))]
        for d in sdirs:
            os.makedirs(d)
        cand_bytes = {}
        for fi, f in enumerate(tree["files"]):
            fname = (f.get("meta_path") or f["path"] or [case.get("meta_name", tree["name"])])[-1] if not single else case.get("meta_name", tree["name"])
            if single:
                fname = case.get("meta_name", tree["name"])
                fname = os.path.basename(fname.rstrip("/")) or fname
            for k, c in enumerate(f.get("cands", [])):
                sd = sdirs[c.get("search", 0) % len(sdirs)]
                sub = ["k%02d-f%d" % (k, fi)] + ["deep"] * c.get("depth", 0)
                data = candidate_bytes(tree, f, c["cls"], k, P)
                p = os.path.join(sd, *sub, fname)
                write_file(p, data)
                cand_bytes[(fi, k)] = data
        for u in range(case.get("unrelated", 1)):
            write_file(os.path.join(sdirs[0], "zz-unrelated", "other%d.bin" % u), content("unrelated/%d" % u, 1000 + u))
        # 3. destination pre-state
        dest = os.path.join(sbx, "dest")
        os.makedirs(dest)
        name = case.get("meta_name", tree["name"])

        def dest_path(f):
            comps = list(f.get("meta_path") or f["path"])
            return os.path.join(dest, name, *comps) if not single else os.path.join(dest, name)
        pre = {}
        for fi, f in enumerate(tree["files"]):
            dp = f.get("dest_pre", "absent")
            if dp == "absent" or case.get("hostile"):
                continue
            data = _orig(tree, f)
            if dp == "correct":
                b = data
            elif dp == "wrong_full":
                b = content("wrongfull/%d" % fi, len(data), 3)
            elif dp == "shorter":
                b = data[:len(data) // 2]
            else:
                b = b""
            if dp == "unrelated":
                write_file(os.path.join(dest, "unrelated-%d.txt" % fi), b"keep me")
            else:
                write_file(dest_path(f), b)
                pre[fi] = b
        os.makedirs(os.path.join(sbx, "abs"), exist_ok=True)
        before = snapshot(sbx)
        # 4. run
        fstrace.start([sbx])
        try:
            with _SortedListing():
                from torrentfile.rebuild import Assembler
                runs = 2 if case.get("repeat") else 1
                rec["runs"] = runs
                for _ in range(runs):
                    if case.get("route") == "cli":
                        from torrentfile.cli import execute
                        argv = ["rebuild", "-m", mpath, "-c"] + sdirs + ["-d", dest]
                        rec["count"] = execute(argv)
                    else:
                        asm = Assembler([mpath], sdirs, dest)
                        rec["count"] = asm.assemble_torrents()
        except SystemExit as ex:
            rec["status"] = "exit:%s" % ex.code
        except Exception as ex:
            rec["status"] = "exc:" + type(ex).__name__
        finally:
            log = fstrace.stop()
        if not isinstance(rec["count"], int):
            rec["count"] = -1
        after = snapshot(sbx)
        # 5. abstraction
        def area(rel):
            top = rel.split(os.sep)[0]
            if top == "dest":
                return "D"
            if top.startswith("search"):
                return "S"
            if top == "metas":
                return "M"
            return "E"
        changed = [r for r in set(before) | set(after) if before.get(r) != after.get(r)]
        rec["sources_unchanged"] = not any(area(r) == "S" for r in changed)
        rec["metas_unchanged"] = not any(area(r) == "M" for r in changed)
        rec["outside_changed"] = sorted(hexs(r) for r in changed if area(r) == "E")
        rec["denied"] = sorted(hexs(p) for p in log["denied"])
        for e in log["log"]:
            if e["kind"] == "denied":
                continue
            for p in (e["path"],):
                ap = os.path.realpath(p)
                if not (ap == os.path.realpath(dest) or ap.startswith(os.path.realpath(dest) + os.sep)):
                    rec["outside_ops"].append({"kind": e["kind"], "path": hexs(os.path.relpath(ap, sbx))})
        recorded = {}
        for fi, f in enumerate(tree["files"]):
            recorded[os.path.relpath(dest_path(f), sbx)] = fi
        for fi, f in enumerate(tree["files"]):
            dp = os.path.relpath(dest_path(f), sbx)
            data = _orig(tree, f)
            if case.get("hostile"):
                state = "n/a"
            elif dp not in after or after[dp][0] != "f":
                state = "absent"
            else:
                with open(os.path.join(sbx, dp), "rb") as fh:
                    b = fh.read()
                if fi in pre and b == pre[fi]:
                    state = "pre"
                elif b == data:
                    state = "intact"
                else:
                    ks = [k for (i2, k), cb in cand_bytes.items() if i2 == fi and cb == b]
                    state = "cand" if ks else "other"
                    if ks:
                        cls = f["cands"][ks[0]]["cls"]
                        state = "cand:" + cls
            # candidates in the order the tool enumerates them: search directory, then directory name
            nse = len(sdirs)
            order = sorted(range(len(f.get("cands", []))), key=lambda k: (f["cands"][k].get("search", 0) % nse, k))
            rec["files"].append({"path": [hexs(c) for c in f["path"]], "length": f["size"],
                                 "cands": [f["cands"][k]["cls"] for k in order],
                                 "dest_pre": f.get("dest_pre", "absent") if not case.get("hostile") else "absent",
                                 "pre_intact": fi in pre and pre[fi] == data, "after": state})
        for r in changed:
            if area(r) != "D" or r not in after or after[r][0] != "f":
                continue
            with open(os.path.join(sbx, r), "rb") as fh:
                b = fh.read()
            fi = recorded.get(r, -1)
            is_copy = fi >= 0 and any(cb == b for (i2, k), cb in cand_bytes.items() if i2 == fi)
            rec["written"].append({"recorded": fi >= 0, "file": fi + 1, "copy_of_candidate": bool(is_copy),
                                   "length_ok": fi >= 0 and len(b) == tree["files"][fi]["size"]})
        rec["present_after"] = sum(1 for x in rec["files"] if x["after"] not in ("absent", "n/a"))
        return rec
    finally:
        rm(sbx)
