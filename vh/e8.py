"""Engine E8 - magnet URIs (C11)."""
from . import magnet
from .core import BLOCK
from .e1 import mk_tree
from .engine import Prop

B = BLOCK
# (the last name and the last URL are not NFC-stable: decomposed accent, OHM / ANGSTROM signs)
NAMES = ["plain", "with space", "a&b=c", "100%+x#y", "ünï-ço∂é", "q?x;y", "名前", "e\u0301tude \u2126 \u212b"]
URLS = ["http://t.example/announce", "http://t.example/a b?x=1&y=2", "udp://t.example:6969/%41+plus#frag",
        "http://ü.example/é", "https://w.example/dir/", "http://t.example/e\u0301/\u2126?k=\u212b",
        # endings made of the characters the URI's own syntax uses (&tr= &ws= xt dn)
        "udp://open.example.net", "https://cdn.example.org/pub/downloads", "http://t.example/?tr=", "http://w.example/ws",
        "http://t.example/a&", "http://t.example/tr=&tr=", "magnet:?xt=urn:btih:"]


class C11(Prop):
    pid = "C11"
    engine = "E8-magnet"
    runner = staticmethod(magnet.run_magnet)
    trace = ("TraceMagnet.tla", "Trace_Magnet.cfg")
    design_ref = "DESIGN.md section 6 C11"
    level_text = ("TLC checks that the implementation-shaped magnet() refines the reference (which xt parameters for "
                  "which content and request, trackers = flattened announce-list else announce, web seeds in order; "
                  "the per-character iteration of a bare-string url-list at the pinned commit is a must-fail variant) "
                  "for every symbolic metafile, and validates recorded URIs (library and CLI) of created, edited and "
                  "reference-encoded metafiles: btih / btmh equal SHA-1 / SHA-256 of the raw info span found by the "
                  "strict decoder, dn / tr / ws decode to name, trackers and seeds in order, nothing else present.")
    rule = ("cases = (metafile source own / edited / reference-encoded with extra keys, version, name and URL "
            "alphabets with reserved and non-ASCII characters, tracker forms, seed forms, request 0..3, route); "
            "distinct by all of these")
    assumptions = ["percent-decoding is done by urllib.parse.parse_qsl (trusted); digests are compared as hex text and reported to TLC as booleans"]

    def mc(self, tier):
        return [{"module": "MagnetRef.tla", "cfg": "MC_Magnet.cfg", "workers": 2, "what": "magnet() refines the reference"},
                {"module": "MagnetRef.tla", "cfg": "MC_Magnet_code.cfg", "expect": "fail", "workers": 2,
                 "what": "bare-string url-list iterated per character (pinned commit)"}]

    def cases(self, tier, rng):
        out = []
        cl = ["C11.xt", "C11.dn", "C11.tr", "C11.ws", "C11.noextra"]
        n = 0
        for v in (1, 2, 3):
            reqs = [0] + ([1, 2, 3] if v == 3 else ([1] if v == 1 else [2]))
            for name in NAMES:
                for single in (False, True):
                    tree = mk_tree("S1", (B + 5,), name=name) if single else mk_tree("D2", (5, 2 * B), name=name)
                    for req in reqs:
                        n += 1
                        route = "cli" if n % 3 == 0 else "lib"
                        u = [URLS[(n + k) % len(URLS)] for k in range(1 + n % 3)]
                        w = [URLS[(n + 2 + k) % len(URLS)] for k in range(n % 3)]
                        opts = {}
                        if n % 4:
                            opts["announce"] = u
                        if w:
                            opts["url_list"] = w
                        if n % 5 == 0:
                            opts["httpseeds"] = [URLS[0]]
                        out.append({"src": "own", "version": v, "P": B, "tree": tree, "request": req, "route": route,
                                    "opts": opts, "clauses": cl})
                        if n % 2 == 0:
                            out.append({"src": "edited", "version": v, "P": B, "tree": tree, "request": req,
                                        "route": route, "opts": opts,
                                        "edit": {"announce": [URLS[n % 6], URLS[(n + 1) % 6]], "url-list": [URLS[(n + 3) % 6]],
                                                 "comment": "c"}, "clauses": cl})
                        # reference encoder: arbitrary key sets and forms
                        forms = [
                            {"extra_top": {"announce": URLS[n % 6]}},
                            {"extra_top": {"announce-list": [[URLS[1], URLS[0]], [URLS[2]]]}},
                            {"extra_top": {"announce": URLS[3], "announce-list": [[URLS[0]], [URLS[3], URLS[1]]]}},
                            {"extra_top": {"url-list": URLS[4]}},                       # bare string (BEP 19)
                            {"extra_top": {"url-list": [URLS[4], URLS[1]], "comment": "x", "zzz": 5}},
                            {"extra_top": {}, "extra_info": {"private": 1, "source": "s", "x-unknown": [1, "a"]}},
                            {"extra_top": {"url-list": URLS[1], "announce": URLS[2]}, "extra_info": {"aaa": "first"}},
                            # raw binary values outside the hash fields (digests other tools record, legacy-encoded text)
                            {"extra_top": {"announce": URLS[0]},
                             "extra_info": {"filehash": bytes(range(236, 256)), "ed2k": b"\x00\xff\xfe\x80" * 4,
                                            "name.latin1": "r\xe9sum\xe9".encode("latin-1"), "x-int": -7}},
                        ]
                        f = forms[n % len(forms)]
                        out.append(dict({"src": "ref", "version": v, "P": B, "tree": tree, "request": req,
                                         "route": route, "clauses": cl}, **f))
        if tier != "thorough":
            out = [c for k, c in enumerate(out) if k % 2 == 0 or c["src"] == "ref"]
        # payloads whose members are named like keys of the metafile itself ("info", "pieces", "announce" ...), other
        # tree shapes, and text fields that contain bencoded-looking text: the info dictionary is still the top-level one
        from .e1 import SHAPES
        for v in (1, 2, 3):
            reqs = [0] + ([1, 2, 3] if v == 3 else [])
            for sh in ("DKEY", "DX", "D5", "DU"):
                sizes = tuple((5, B + 1, 2 * B, 7)[k % 4] for k in range(len(SHAPES[sh])))
                for req in reqs:
                    for src in ("own", "ref"):
                        out.append({"src": src, "version": v, "P": B, "tree": mk_tree(sh, sizes), "request": req,
                                    "route": "cli" if (v + req) % 2 else "lib",
                                    "opts": {"announce": [URLS[0]], "comment": "4:infod4:name1:xe", "source": "d4:infode"},
                                    "extra_top": {"announce": URLS[0], "comment": "4:infod4:name1:xe", "zz": {"info": {"name": "decoy"}}},
                                    "clauses": cl})
        # content of total length 0 (empty piece string / no roots): still v1 and / or v2 content
        for v in (1, 2, 3):
            reqs = [0] + ([1, 2, 3] if v == 3 else [])
            for tree in (mk_tree("S1", (0,), name="empty.bin"), mk_tree("D2", (0, 0), name="empties")):
                for req in reqs:
                    for src in ("own", "ref"):
                        out.append({"src": src, "version": v, "P": B, "tree": tree, "request": req, "route": "lib",
                                    "opts": {"announce": [URLS[0]]}, "extra_top": {"announce": URLS[0]}, "clauses": cl})
        return out

    def corruptions(self, recs):
        import copy
        from .mutate import first
        out = []
        for r in first(recs, lambda r: r["status"] == "ok" and len(r["tr"]) >= 1):
            m = copy.deepcopy(r)
            m["tr"] = m["tr"][1:]
            out.append((m, "C11.tr"))
        for r in first(recs, lambda r: r["status"] == "ok" and r["xt"]):
            m = copy.deepcopy(r)
            m["xt"][0]["eq_sha1"] = m["xt"][0]["eq_sha256"] = False
            out.append((m, "C11.xt"))
        return out

    def nontrivial(self, case):
        return (case["src"], case["version"], case["tree"]["name"], bool(case["tree"].get("single")), case["request"],
                case["route"], str(case.get("opts")), str(case.get("extra_top")), str(case.get("extra_info")))

    def signature(self, case, rec, clause):
        form = "-"
        if rec:
            form = rec["meta"]["seeds"][0]
        return "%s/%s" % (clause, form if clause == "C11.ws" else (case or {}).get("src", "?"))

    def sample(self, case, rec):
        return {"src": case["src"], "version": case["version"], "name": case["tree"]["name"], "request": case["request"],
                "route": case["route"], "tr": rec.get("tr") if rec else None}


PROPS = {"C11": C11}
