#!/venv/bin/python
"""dev helper: run every stored seeded change against the checks recorded as catching it (N at a time);
one line per (seed, check) to stdout.   tools_regress.py [parallel=3] [name-filter]"""
import concurrent.futures as cf
import json
import os
import re
import subprocess
import sys

V = os.path.dirname(os.path.abspath(__file__))


def one(name):
    m = json.load(open(os.path.join(V, "seeded", name, "meta.json")))
    c = " ".join(m.get("detection", {}).get("caught_by", []))
    props = sorted(set(re.findall(r"\bC\d\d\b", c)))[:2]
    if not props:
        return "%s -: not adopted / no check recorded" % name
    p = subprocess.run([os.path.join(V, "tools_reseed.sh"), name] + props, stdout=subprocess.PIPE, stderr=subprocess.STDOUT)
    return p.stdout.decode(errors="replace").strip()


if __name__ == "__main__":
    par = int(sys.argv[1]) if len(sys.argv) > 1 else 3
    flt = sys.argv[2] if len(sys.argv) > 2 else ""
    names = sorted(n for n in os.listdir(os.path.join(V, "seeded")) if flt in n)
    with cf.ThreadPoolExecutor(par) as ex:
        for r in ex.map(one, names):
            print(r, flush=True)
    print("DONE", flush=True)
