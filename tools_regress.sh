#!/bin/bash
# dev helper: run every stored seeded change against the checks that are recorded as catching it (3 at a time);
# writes one line per (seed, check) to regress.log in the current directory
V=$(cd "$(dirname "$0")" && pwd)
: > regress.log
ls $V/seeded | while read s; do echo $s; done | xargs -P 3 -I{} bash -c '
  V='"$V"'
  props=$(/venv/bin/python - <<PY
import json,re
m=json.load(open("'"$V"'/seeded/{}/meta.json"))
c=" ".join(m.get("detection",{}).get("caught_by",[]))
ps=sorted(set(re.findall(r"\bC\d\d\b", c)))
print(" ".join(ps[:2]))
PY
)
  if [ -z "$props" ]; then echo "{} -: not adopted / no check recorded"; else $V/tools_reseed.sh {} $props; fi' >> regress.log 2>&1
echo DONE >> regress.log
