#!/bin/bash
# dev helper: tools_seed.sh <seed-name> <worktree> <prop> [<prop> ...]
# 1. confirm the seeded change: tests pass with it, demo fails with it and passes without
# 2. store it under seeded/<seed-name>/   3. run the named checks against the worktree (VERIF_REPO)
name=$1; wt=$2; shift 2
set -u
cd "$wt" || exit 2
[ -f _seed/patch.diff ] || { echo "no patch"; exit 2; }
git diff --quiet -- torrentfile && git apply _seed/patch.diff   # ensure applied
echo "== tests with patch"; /venv/bin/python -m pytest -q -p no:cacheprovider --timeout=900 2>&1 | tail -1
echo "== demo with patch"; (cd /tmp && /venv/bin/python "$wt/_seed/demo.py" "$wt" >/tmp/seed_demo_with.txt 2>&1; echo "exit=$?")
git apply -R _seed/patch.diff
echo "== demo without patch"; (cd /tmp && /venv/bin/python "$wt/_seed/demo.py" "$wt" >/tmp/seed_demo_without.txt 2>&1; echo "exit=$?")
git apply _seed/patch.diff
mkdir -p /verif/seeded/$name && cp _seed/patch.diff _seed/demo.py _seed/meta.json /verif/seeded/$name/
cd /verif
for p in "$@"; do
  echo "== check $p against seeded tree"
  VERIF_REPO=$wt VERIF_NO_EVIDENCE=1 VERIF_REPLAY_DIR=/tmp/seed_replays ./check $p 2>&1 | grep -E "^VIOLATION|^OK|^MACHINERY|^KNOWN" | head -5
done
