#!/venv/bin/python
"""Regenerate MANIFEST.json from the registry (dev helper; MANIFEST.json is committed)."""
import json, os, sys
sys.dont_write_bytecode = True
sys.path.insert(0, os.path.dirname(os.path.abspath(__file__)))
from vh import registry

BASE = ("cd /repo && /venv/bin/python -m pytest -ra -q -p no:cacheprovider --timeout=900 "
        "--continue-on-collection-errors")
SELF = (" On every run TLC additionally judges corrupted copies of recorded records (they must be rejected: "
        "self-test of the binding).")
SCALED = (" The finite universe that TLC model-checks in the scaled world (block size 2) is also replayed "
          "into the real code and judged by TLC against the reference and against the implementation-shaped "
          "model's own prediction (DESIGN.md 13.7b/c).")
COMMON = {"*": SELF, "E1-create-hashers": SCALED + SELF, "E3-recheck": SCALED + SELF, "E4-rebuild": SCALED + SELF}
checks = []
for pid in sorted(registry.PROPS):
    cls = registry.PROPS[pid]
    checks.append({
        "property_id": pid,
        "quick_cmd": "./check %s --tier quick" % pid,
        "thorough_cmd": "./check %s --tier thorough" % pid,
        "evidence_file": "evidence/%s.json" % pid,
        "replay_cmd_template": "./check %s --replay {path}" % pid,
        "engine": cls.engine,
        "level_claimed": {"category": "model_checking",
                          "text": cls.level_text + COMMON.get(cls.engine, COMMON["*"]), "design_ref": cls.design_ref},
        "level_note": cls.level_note,
        "technique": cls.technique,
    })
man = {
    "version": 1,
    "setup_cmd": "./setup.sh",
    "hooks": {"guard": "TORRENTFILE_VERIF", "enable": "no hooks in /repo: every property is observed at public API / filesystem level (audit hook and snapshots live in /verif)",
              "baseline_off_cmd": BASE, "source_commits": [], "add_only": True},
    "engines": registry.ENGINES,
    "checks": checks,
    "not_applicable": registry.NOT_APPLICABLE,
    "notes": "TLA+ specification in spec/, harness in vh/, see DESIGN.md. Fix commits in /repo are listed in known_findings.json (status fixed).",
}
json.dump(man, open(os.path.join(os.path.dirname(os.path.abspath(__file__)), "MANIFEST.json"), "w"), indent=1)
print("MANIFEST.json written: %d checks, %d not applicable" % (len(checks), len(registry.NOT_APPLICABLE)))
