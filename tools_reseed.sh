#!/bin/bash
# dev helper: tools_reseed.sh <seed-name> [<prop> ...]
# re-applies a stored seeded change to a scratch worktree of /repo and runs the named checks (default: the
# property recorded in the seed's meta.json) against it; prints one line per check; removes the worktree.
name=$1; shift
V=$(cd "$(dirname "$0")" && pwd)
sd=$V/seeded/$name
[ -f $sd/patch.diff ] || { echo "no such seed $name"; exit 2; }
props="$@"
[ -n "$props" ] || props=$(/venv/bin/python -c "import json;print(json.load(open('$sd/meta.json'))['property'].replace(',',' '))")
wt=/tmp/reseed/$name
mkdir -p /tmp/reseed
git -C /repo worktree add --detach $wt HEAD >/dev/null 2>&1 || { echo "$name: worktree failed"; exit 2; }
if ! git -C $wt apply $sd/patch.diff 2>/dev/null; then
  echo "$name: PATCH-DOES-NOT-APPLY (repo changed since the seed was made)"
else
  for p in $props; do
    r=$(cd $V && VERIF_REPO=$wt VERIF_NO_EVIDENCE=1 VERIF_SKIP_MC=1 VERIF_REPLAY_DIR=/tmp/reseed/replays-$name ./check $p 2>&1 | grep -E "^VIOLATION|^OK|^MACHINERY" | head -1 | cut -c1-80)
    echo "$name $p: $r"
  done
fi
git -C /repo worktree remove --force $wt >/dev/null 2>&1
rm -rf /tmp/reseed/replays-$name
