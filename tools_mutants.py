#!/venv/bin/python
"""Development aid (not a registered check): mutation analysis of the verification machinery.

  tools_mutants.py gen                 -> /tmp/mut/mutants.json  (AST-level mutants of torrentfile/*.py)
  tools_mutants.py tests [N-parallel]  -> runs the repository's test suite on every mutant (scratch copies
                                          under /tmp/mut/w*), records which survive
  tools_mutants.py checks [limit]      -> runs the mapped quick checks (VERIF_REPO=<scratch copy>) on the
                                          test-surviving mutants, stops at the first VIOLATION per mutant
  tools_mutants.py report              -> summary + list of mutants that survive tests AND checks

Mutants are never applied to /repo; scratch copies live under /tmp/mut and are removed after use.
"""
import ast
import json
import os
import random
import re
import shutil
import subprocess
import sys
import concurrent.futures as cf

REPO = "/repo"
WORK = "/tmp/mut"
FILES = ["hasher.py", "torrent.py", "recheck.py", "edit.py", "rebuild.py", "utils.py", "commands.py", "cli.py", "mixins.py"]
PROPS = {
    "hasher.py": ["C01", "C02", "C15", "C10", "C03", "C09"],
    "torrent.py": ["C01", "C02", "C03", "C15", "C20", "C08", "C06", "C12"],
    "recheck.py": ["C04", "C05", "C16", "C18"],
    "edit.py": ["C07", "C06", "C17"],
    "rebuild.py": ["C13", "C14", "C19"],
    "utils.py": ["C12", "C01", "C08", "C13", "C14", "C09"],
    "commands.py": ["C20", "C11", "C18", "C07", "C12"],
    "cli.py": ["C20", "C18", "C07", "C11"],
    "mixins.py": ["C08", "C01", "C04"],
}
CMP = {ast.Lt: ("<", "<="), ast.LtE: ("<=", "<"), ast.Gt: (">", ">="), ast.GtE: (">=", ">"),
       ast.Eq: ("==", "!="), ast.NotEq: ("!=", "=="), ast.In: ("in", "not in"), ast.NotIn: ("not in", "in"),
       ast.Is: ("is", "is not"), ast.IsNot: ("is not", "is")}
BIN = {ast.Add: ("+", "-"), ast.Sub: ("-", "+"), ast.Mult: ("*", "//"), ast.FloorDiv: ("//", "*"),
       ast.Mod: ("%", "//"), ast.Div: ("/", "*")}


def offsets(src):
    lines = src.splitlines(keepends=True)
    starts = [0]
    for ln in lines:
        starts.append(starts[-1] + len(ln.encode()))
    return starts


def gen_file(fname):
    path = os.path.join(SNAP, fname)
    src = open(path, encoding="utf-8").read()
    bsrc = src.encode()
    starts = offsets(src)
    tree = ast.parse(src)
    muts = []

    def pos(node, end=False):
        if end:
            return starts[node.end_lineno - 1] + node.end_col_offset
        return starts[node.lineno - 1] + node.col_offset

    def add(a, b, new, kind, line):
        muts.append({"file": fname, "a": a, "b": b, "new": new, "kind": kind, "line": line,
                     "old": bsrc[a:b].decode()})

    def between(lo, hi, tok, new, kind, line):
        seg = bsrc[lo:hi].decode()
        m = re.search(r"(?<![=!<>+\-*/%])" + re.escape(tok) + r"(?![=<>*/])", seg) if not tok[0].isalpha() else re.search(r"\b" + tok.replace(" ", r"\s+") + r"\b", seg)
        if m:
            a = lo + len(seg[:m.start()].encode())
            add(a, a + len(m.group(0).encode()), new, kind, line)

    docstrings = set()
    for node in ast.walk(tree):
        if isinstance(node, (ast.FunctionDef, ast.ClassDef, ast.Module)) and node.body and isinstance(node.body[0], ast.Expr) \
                and isinstance(getattr(node.body[0], "value", None), ast.Constant) and isinstance(node.body[0].value.value, str):
            docstrings.add(id(node.body[0]))
    logcalls = set()
    for node in ast.walk(tree):
        # skip logging / debug calls entirely
        if isinstance(node, ast.Expr) and isinstance(node.value, ast.Call):
            f = node.value.func
            txt = ast.unparse(f)
            if txt.startswith("logger.") or txt.endswith("log_msg") or txt in ("print", "showtext", "showcenter"):
                for sub in ast.walk(node):
                    logcalls.add(id(sub))
    for node in ast.walk(tree):
        if id(node) in logcalls:
            continue
        if isinstance(node, ast.Compare) and len(node.ops) == 1:
            op = type(node.ops[0])
            if op in CMP:
                tok, new = CMP[op]
                between(pos(node.left, True), pos(node.comparators[0]), tok, new, "cmp", node.lineno)
        elif isinstance(node, ast.BinOp) and type(node.op) in BIN:
            if isinstance(node.left, ast.Constant) and isinstance(node.left.value, str):
                continue     # string formatting
            tok, new = BIN[type(node.op)]
            between(pos(node.left, True), pos(node.right), tok, new, "bin", node.lineno)
        elif isinstance(node, ast.BoolOp):
            tok, new = ("and", "or") if isinstance(node.op, ast.And) else ("or", "and")
            between(pos(node.values[0], True), pos(node.values[1]), tok, new, "bool", node.lineno)
        elif isinstance(node, ast.UnaryOp) and isinstance(node.op, ast.Not):
            add(pos(node), pos(node.operand), "", "not", node.lineno)
        elif isinstance(node, ast.Constant) and not isinstance(node.value, (str, bytes)) and node.value is not None \
                and node.value is not Ellipsis:
            if isinstance(node.value, bool):
                add(pos(node), pos(node, True), str(not node.value), "const", node.lineno)
            elif isinstance(node.value, int) and abs(node.value) <= 64:
                add(pos(node), pos(node, True), str(node.value + 1), "const", node.lineno)
                if node.value > 0:
                    add(pos(node), pos(node, True), str(node.value - 1), "const", node.lineno)
        elif isinstance(node, (ast.Break, ast.Continue)):
            add(pos(node), pos(node, True), "continue" if isinstance(node, ast.Break) else "break", "loop", node.lineno)
        elif isinstance(node, (ast.Assign, ast.AugAssign, ast.Expr)) and id(node) not in docstrings \
                and node.lineno == node.end_lineno:
            if isinstance(node, ast.Expr) and not isinstance(node.value, ast.Call):
                continue
            add(pos(node), pos(node, True), "pass", "del", node.lineno)
        elif isinstance(node, ast.If):
            add(pos(node.test), pos(node.test, True), "True", "iftrue", node.lineno)
            add(pos(node.test), pos(node.test, True), "False", "iffalse", node.lineno)
        elif isinstance(node, ast.Return) and node.value is not None and not isinstance(node.value, ast.Constant):
            pass
    # keep only mutants that still compile
    good = []
    for m in muts:
        new = bsrc[:m["a"]] + m["new"].encode() + bsrc[m["b"]:]
        try:
            compile(new, fname, "exec")
        except SyntaxError:
            continue
        good.append(m)
    return good


SNAP = os.path.join(WORK, "src")      # the sources the mutants were generated from


def apply(m, root):
    path = os.path.join(root, "torrentfile", m["file"])
    b = open(os.path.join(SNAP, m["file"]), "rb").read()
    open(path, "wb").write(b[:m["a"]] + m["new"].encode() + b[m["b"]:])


def fresh_copy(dst):
    if os.path.exists(dst):
        shutil.rmtree(dst)
    shutil.copytree(REPO, dst, ignore=shutil.ignore_patterns(".git", "site", "__pycache__", "*.pyc", "TESTDIR", "htmlcov"))


def load():
    return json.load(open(os.path.join(WORK, "mutants.json")))


def save(ms):
    tmp = os.path.join(WORK, "mutants.json.tmp")
    json.dump(ms, open(tmp, "w"), indent=0)
    os.replace(tmp, os.path.join(WORK, "mutants.json"))


def cmd_gen():
    os.makedirs(SNAP, exist_ok=True)
    old = {}
    if os.path.exists(os.path.join(WORK, "mutants.json")):
        for m in load():
            if "tests" in m:
                old[(m["file"], m["line"], m["kind"], m["old"], m["new"], m["a"])] = m
    changed = {f for f in FILES if not os.path.exists(os.path.join(SNAP, f)) or
               open(os.path.join(SNAP, f), "rb").read() != open(os.path.join(REPO, "torrentfile", f), "rb").read()}
    for f in FILES:
        shutil.copyfile(os.path.join(REPO, "torrentfile", f), os.path.join(SNAP, f))
    ms = []
    for f in FILES:
        ms += gen_file(f)
    for n, m in enumerate(ms):
        m["id"] = n
        o = old.get((m["file"], m["line"], m["kind"], m["old"], m["new"], m["a"]))
        if o and m["file"] not in changed:       # results for unchanged files carry over
            for k in ("tests", "tests_tail", "checks", "checks_by"):
                if k in o:
                    m[k] = o[k]
    save(ms)
    print("files changed since the last generation:", sorted(changed), "carried over:", sum(1 for m in ms if "tests" in m))
    from collections import Counter
    print(len(ms), "mutants", Counter(m["file"] for m in ms))


def run_tests(m, slot):
    root = os.path.join(WORK, "w%d" % slot)
    for f in FILES:        # restore pristine sources in this slot
        shutil.copyfile(os.path.join(SNAP, f), os.path.join(root, "torrentfile", f))
    apply(m, root)
    os.makedirs(os.path.join(root, "home"), exist_ok=True)     # the suite writes below Path.home()
    try:
        p = subprocess.run(["/venv/bin/python", "-m", "pytest", "-q", "-x", "-p", "no:cacheprovider", "--timeout=120"],
                           cwd=root, stdout=subprocess.PIPE, stderr=subprocess.STDOUT, timeout=900,
                           env=dict(os.environ, PYTHONDONTWRITEBYTECODE="1", HOME=os.path.join(root, "home")))
        out = p.stdout.decode(errors="replace")
        ok = p.returncode == 0
        tail = out.strip().splitlines()[-1] if out.strip() else ""
    except subprocess.TimeoutExpired:
        ok, tail = False, "timeout"
    shutil.rmtree(os.path.join(root, "tests", "TESTDIR"), ignore_errors=True)
    return ok, tail


def cmd_tests(par, files=None, every=1):
    ms = load()
    todo = [m for m in ms if "tests" not in m and (not files or m["file"] in files)][::every]
    for s in range(par):
        fresh_copy(os.path.join(WORK, "w%d" % s))
    import queue
    slots = queue.Queue()
    for s in range(par):
        slots.put(s)

    def work(m):
        s = slots.get()
        try:
            return m, run_tests(m, s)
        finally:
            slots.put(s)
    done = 0
    with cf.ThreadPoolExecutor(par) as ex:
        for m, (ok, tail) in ex.map(work, todo):
            m["tests"] = "survived" if ok else "killed"
            m["tests_tail"] = tail[-120:]
            done += 1
            if done % 20 == 0:
                save(ms)
                print(done, "/", len(todo), sum(1 for x in ms if x.get("tests") == "survived"), "survivors", flush=True)
    save(ms)
    for s in range(par):
        shutil.rmtree(os.path.join(WORK, "w%d" % s), ignore_errors=True)
    print("survivors:", sum(1 for x in ms if x.get("tests") == "survived"), "of", len(ms))


CHK = os.path.join(WORK, "checks.json")       # results of the checks phase (separate file: phases may overlap)


def mkey(m):
    return "%s:%d:%s:%s:%s:%d" % (m["file"], m["line"], m["kind"], m["old"], m["new"], m["a"])


def load_chk():
    return json.load(open(CHK)) if os.path.exists(CHK) else {}


def cmd_checks(limit, files=None):
    ms = load()
    chk = load_chk()
    todo = [m for m in ms if m.get("tests") == "survived" and mkey(m) not in chk and (not files or m["file"] in files)]
    # leave out sites that only concern progress display / logging / callbacks (no property depends on them)
    import re as _re
    dull = _re.compile(r"prog|logger|log_msg|print\(|showtext|_update\(|\.cb\(|callback|hook|debug|__repr__|__str__")

    def line_of(m):
        return open(os.path.join(SNAP, m["file"]), encoding="utf-8").read().splitlines()[m["line"] - 1]
    todo = [m for m in todo if not dull.search(line_of(m))]
    random.Random(7).shuffle(todo)
    todo = todo[:limit]
    root = os.path.join(WORK, "c0")
    fresh_copy(root)
    for n, m in enumerate(todo):
        for f in FILES:
            shutil.copyfile(os.path.join(SNAP, f), os.path.join(root, "torrentfile", f))
        apply(m, root)
        verdict, by = "survived", None
        for pid in PROPS[m["file"]]:
            p = subprocess.run(["/verif/check", pid], cwd="/verif", stdout=subprocess.PIPE, stderr=subprocess.STDOUT,
                               env=dict(os.environ, VERIF_REPO=root, VERIF_NO_EVIDENCE="1", VERIF_SKIP_MC="1",
                                        VERIF_REPLAY_DIR=os.path.join(WORK, "replays")), timeout=3600)
            out = p.stdout.decode(errors="replace")
            if "VIOLATION property=" in out:
                verdict, by = "killed", pid
                break
            if p.returncode == 2 or "MACHINERY" in out:
                verdict, by = "machinery", pid + ":" + out.strip().splitlines()[-1][:200]
                break
        chk[mkey(m)] = [verdict, by]
        json.dump(chk, open(CHK + ".tmp", "w"))
        os.replace(CHK + ".tmp", CHK)
        shutil.rmtree(os.path.join(WORK, "replays"), ignore_errors=True)
        print(n + 1, "/", len(todo), m["file"], m["line"], m["kind"], repr(m["old"]), "->", repr(m["new"]), verdict, by, flush=True)
    shutil.rmtree(root, ignore_errors=True)


def cmd_report():
    ms = load()
    chk = load_chk()
    for m in ms:
        if mkey(m) in chk:
            m["checks"], m["checks_by"] = chk[mkey(m)]
    from collections import Counter
    print("mutants", len(ms), "tests:", Counter(m.get("tests") for m in ms), "checks:", Counter(m.get("checks") for m in ms))
    for m in ms:
        if m.get("checks") in ("survived", "machinery"):
            src = open(os.path.join(REPO, "torrentfile", m["file"]), encoding="utf-8").read().splitlines()[m["line"] - 1].strip()
            print("%4d %s:%d %-7s %r -> %r  [%s]  | %s" % (m["id"], m["file"], m["line"], m["kind"], m["old"], m["new"],
                                                            m.get("checks_by") or "", src[:110]))


if __name__ == "__main__":
    c = sys.argv[1]
    if c == "gen":
        cmd_gen()
    elif c == "tests":        # tests [parallel] [every-nth] [files ...]
        cmd_tests(int(sys.argv[2]) if len(sys.argv) > 2 else 6, sys.argv[4:] or None, int(sys.argv[3]) if len(sys.argv) > 3 else 1)
    elif c == "checks":
        cmd_checks(int(sys.argv[2]) if len(sys.argv) > 2 else 100, sys.argv[3:] or None)
    elif c == "report":
        cmd_report()
