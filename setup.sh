#!/bin/sh
# Offline setup: parse every TLA+ module with SANY and syntax-check the harness.
set -e
cd "$(dirname "$0")"
mkdir -p evidence replays
for f in spec/*.tla; do
  out=$(cd spec && tla-sany "$(basename "$f")" 2>&1) || { echo "$out" | tail -20; echo "SANY failed: $f"; exit 1; }
  if echo "$out" | grep -q "\*\*\* Errors"; then echo "$out" | tail -20; echo "SANY errors: $f"; exit 1; fi
done
/venv/bin/python - <<'PY'
import ast, glob, sys
for p in glob.glob('vh/*.py') + ['check']:
    ast.parse(open(p).read(), p)
print("harness syntax ok")
PY
echo "setup ok"
