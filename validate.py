#!/opt/veriftools/pyvenv/bin/python
"""Dev helper: validate MANIFEST.json and evidence/*.json against the schemas."""
import glob, json, sys
import jsonschema
jsonschema.validate(json.load(open('/verif/MANIFEST.json')), json.load(open('/root/.vp/MANIFEST.schema.json')))
es = json.load(open('/root/.vp/EVIDENCE.schema.json'))
n = 0
for p in sorted(glob.glob('/verif/evidence/*.json')):
    jsonschema.validate(json.load(open(p)), es); n += 1
props = [json.loads(l)['id'] for l in open('/verif/properties.jsonl')]
man = json.load(open('/verif/MANIFEST.json'))
claimed = {c['property_id'] for c in man['checks']}
na = {c['property_id'] for c in man.get('not_applicable', [])}
assert claimed | na == set(props) and not (claimed & na), (claimed, na)
print('valid: manifest + %d evidence files; claimed %d, not_applicable %d' % (n, len(claimed), len(na)))
