SPECIFICATION Spec
CONSTANTS
  Variant = "sorted"
  Trees <- MCTrees
INVARIANT OrderIndependent
INVARIANT Complete
CHECK_DEADLOCK FALSE
