SPECIFICATION Spec
CONSTANT Variant = "code"
INVARIANT NeverLost
INVARIANT ErrorLeavesComplete
INVARIANT DoneIsNew
CHECK_DEADLOCK FALSE
