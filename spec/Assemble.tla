------------------------------- MODULE Assemble -------------------------------
(* Implementation-shaped model of the v2 / hybrid creators' assembly step      *)
(* (TorrentAssembler.assemble/_traverse, TorrentFileV2, TorrentFileHybrid):    *)
(* walking the files in tree order, one FileHasher / HasherHybrid per          *)
(* non-empty file, and building                                                *)
(*   leaves  : <<length, root or "none">> per file                             *)
(*   layers  : the files whose piece layer goes into `piece layers`            *)
(*   files   : the hybrid v1 list, <<"f", size>> / <<"p", n>> entries          *)
(*   pieces  : the hybrid v1 piece string (descriptors <<"S", start, len, z>>  *)
(*             over the plain concatenation of the files, as in HasherV1)      *)
(* including the single-file case, where the last piece is hashed without      *)
(* padding (the repair of C03).  Files are numbered in tree order.             *)
(* Variant "code" = current code; "m_ge" puts files of exactly one piece into  *)
(* piece layers; "m_padsingle" keeps the zero-extended last piece of a single  *)
(* file (the pinned commit).                                                   *)
EXTENDS Core, BEP52
CONSTANTS MaxFiles, MaxSize, PieceLens, Variant

HV == INSTANCE HasherV2 WITH MaxPieces <- 0, Classes <- {}, Variant <- "code", st <- 0

Start(sizes, f) == SumTo(sizes, f - 1)
\* HasherV2's descriptors are relative to file 1 / offset 0 of that file: rebase them
Rebase(d, f, start) == IF d[1] = "S" THEN <<"S", start + d[2], d[3], d[4]>>
                       ELSE IF d[1] = "N" THEN <<"N", f, d[3], d[4]>> ELSE d

RECURSIVE Traverse(_, _, _, _)
\* state: [leaves, layers, files, pieces]
Traverse(sizes, P, f, acc) ==
    IF f > Len(sizes) THEN acc
    ELSE LET sz == sizes[f] IN
         IF sz = 0
         THEN Traverse(sizes, P, f + 1,
                       [acc EXCEPT !.leaves = Append(acc.leaves, <<0, Unknown>>),
                                   !.files = Append(acc.files, <<"f", 0>>)])
         ELSE LET r == HV!Result("FHh", sz, P)
                  inl == IF Variant = "m_ge" THEN sz >= P ELSE sz > P
                  pcs == [j \in DOMAIN r.pieces |-> Rebase(r.pieces[j], f, Start(sizes, f))]
              IN Traverse(sizes, P, f + 1,
                   [leaves |-> Append(acc.leaves, <<sz, Rebase(r.root, f, 0)>>),
                    layers |-> IF inl THEN Append(acc.layers, f) ELSE acc.layers,
                    files |-> acc.files \o <<<<"f", sz>>>> \o (IF r.padding > 0 THEN <<<<"p", r.padding>>>> ELSE <<>>),
                    pieces |-> acc.pieces \o pcs])

Assembled(sizes, P, single) ==
    LET a == Traverse(sizes, P, 1, [leaves |-> <<>>, layers |-> <<>>, files |-> <<>>, pieces |-> <<>>])
        tail == sizes[1] % P
    IN IF single /\ tail # 0 /\ Variant # "m_padsingle"
       THEN \* a single file is not followed by padding: _last_piece_unpadded
            [a EXCEPT !.pieces[Len(a.pieces)] = <<"S", sizes[1] - tail, tail, 0>>, !.files = <<>>]
       ELSE IF single THEN [a EXCEPT !.files = <<>>] ELSE a

(* ---- reference --------------------------------------------------------------------- *)
H1 == INSTANCE HasherV1 WITH Variant <- "fixed", Aligns <- {}, st <- 0
\* the declared v1 stream of the hybrid: the files list (or the single file alone)
Declared(sizes, a, single) == IF single THEN <<<<"f", sizes[1]>>>> ELSE a.files

VARIABLES sizes, P, single
Init == /\ P \in PieceLens
        /\ \E n \in 1 .. MaxFiles : sizes \in [1 .. n -> 0 .. MaxSize]
        /\ SumSeq(sizes) > 0
        /\ single \in BOOLEAN /\ (single => Len(sizes) = 1)
Next == UNCHANGED <<sizes, P, single>>
Spec == Init /\ [][Next]_<<sizes, P, single>>

A == Assembled(sizes, P, single)
\* C02: leaves carry the BEP 52 root (none for empty files); layers = files larger than a piece
TreeCorrect == \A f \in DOMAIN sizes :
                  /\ A.leaves[f][1] = sizes[f]
                  /\ A.leaves[f][2] = (IF sizes[f] = 0 THEN Unknown ELSE RefRoot(f, sizes[f], P))
LayersCorrect == A.layers = SelectSeq([f \in DOMAIN sizes |-> f], LAMBDA f : InLayers(sizes[f], P))
\* C03: payload entries are the files in tree order, each starts on a piece boundary, pad = gap,
\* and the piece string is the hashing of exactly the declared stream
HybridOrder == single \/ SelectSeq(A.files, LAMBDA e : e[1] = "f") = [f \in DOMAIN sizes |-> <<"f", sizes[f]>>]
HybridBoundaries == single \/
    LET st == H1!EntryStarts(A.files, 0)
    IN \A k \in DOMAIN A.files : A.files[k][1] = "f" => st[k] % P = 0
HybridPieces ==
    LET E == Declared(sizes, A, single)
        ref == H1!DeclPieces(E, P)
    IN [k \in DOMAIN A.pieces |-> H1!Norm(A.pieces[k])] = [k \in DOMAIN ref |-> H1!Norm(ref[k])]
=============================================================================
