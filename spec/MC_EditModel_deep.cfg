SPECIFICATION Spec
CONSTANTS
  Variant = "fixed"
  MaxEdits = 2
  MaxLayers = 2
  Entries = {"lib", "cli"}
  MaxNamed = 3
  AllCreates = TRUE
VIEW View
INVARIANT Canonical
INVARIANT Structure
INVARIANT PresenceOK
PROPERTY EditRefines
CHECK_DEADLOCK FALSE
