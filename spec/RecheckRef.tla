----------------------------- MODULE RecheckRef -----------------------------
(* Reference layer for recheck (C04, C05, C16).                                *)
(* A payload is a sequence of recorded files; the disk state of each is        *)
(*   [present |-> BOOLEAN, len |-> on-disk length (<= rec), flips |-> set of   *)
(*    flipped byte offsets].                                                   *)
(* Described bytes are never zero (harness content generator) except those of  *)
(* padding entries (kind "p"), which are all zero and never exist on disk;     *)
(* absent data is read as zeros.  Hence a byte "verifies" iff it is a padding  *)
(* byte, or it is present and not flipped.                                     *)
(* A verdict is <<match, size>> for one piece, in the order recheck must       *)
(* produce them: v1 - pieces of the concatenated stream; v2/hybrid - per-file  *)
(* pieces in file-tree order (empty files have none).                          *)
EXTENDS Core

ByteOK(kind, d, o) == kind = "p" \/ (d.present /\ o < d.len /\ o \notin d.flips)
\* interval form (used everywhere) and its byte-wise meaning (checked equal in MC_RecheckRef)
RangeOK(kind, d, a, b) == a >= b \/ kind = "p"
                          \/ (d.present /\ b <= d.len /\ \A o \in d.flips : o < a \/ o >= b)
RangeOKBytewise(kind, d, a, b) == \A o \in a .. (b - 1) : ByteOK(kind, d, o)

Total(recs) == SumSeq(recs)
FileStart(recs, f) == SumTo(recs, f - 1)

V1PieceOK(recs, kinds, disk, P, k) ==
    LET a == k * P
        b == Min((k + 1) * P, Total(recs))
    IN \A f \in DOMAIN recs :
          LET s == FileStart(recs, f)
              lo == Max(a, s)
              hi == Min(b, s + recs[f])
          IN RangeOK(kinds[f], disk[f], lo - s, hi - s)
V1Verdicts(recs, kinds, disk, P) ==
    [k \in 1 .. CeilDiv(Total(recs), P) |->
        <<V1PieceOK(recs, kinds, disk, P, k - 1), Min(P, Total(recs) - (k - 1) * P)>>]

RECURSIVE FileAt(_, _, _)
FileAt(recs, x, f) == IF x < recs[f] THEN <<f, x>> ELSE FileAt(recs, x - recs[f], f + 1)
V1PieceOKBytewise(recs, kinds, disk, P, k) ==
    \A x \in (k * P) .. (Min((k + 1) * P, Total(recs)) - 1) :
        LET fo == FileAt(recs, x, 1) IN ByteOK(kinds[fo[1]], disk[fo[1]], fo[2])

FileVerdicts(rec, d, P) ==
    [j \in 1 .. CeilDiv(rec, P) |->
        <<RangeOK("f", d, (j - 1) * P, Min(j * P, rec)), Min(P, rec - (j - 1) * P)>>]
RECURSIVE V2From(_, _, _, _)
V2From(recs, disk, P, f) == IF f > Len(recs) THEN <<>>
                            ELSE FileVerdicts(recs[f], disk[f], P) \o V2From(recs, disk, P, f + 1)
V2Verdicts(recs, disk, P) == V2From(recs, disk, P, 1)

RECURSIVE MatchedBytes(_)
MatchedBytes(vs) == IF vs = <<>> THEN 0
                    ELSE (IF Head(vs)[1] THEN Head(vs)[2] ELSE 0) + MatchedBytes(Tail(vs))
RECURSIVE ConsumedBytes(_)
ConsumedBytes(vs) == IF vs = <<>> THEN 0 ELSE Head(vs)[2] + ConsumedBytes(Tail(vs))
\* (a payload without a single byte - empty files only - has nothing that could fail: the full share)
SharePpm(vs) == IF ConsumedBytes(vs) = 0 THEN 100000000 ELSE Ppm(100 * MatchedBytes(vs), ConsumedBytes(vs))

Intact(recs, kinds, disk) == \A f \in DOMAIN recs : RangeOK(kinds[f], disk[f], 0, recs[f])
=============================================================================
