----------------------------- MODULE FeedChecker -----------------------------
(* Implementation-shaped model of recheck.FeedChecker (v1 recheck):            *)
(* iter_pieces / extract / _gen_padding / __next__, INCLUDING the object       *)
(* identity of the `partial` bytearray: `heap` holds the contents of every     *)
(* bytearray object, ip is the object iter_pieces.partial refers to, loc the   *)
(* object the running sub-generator's local `partial` refers to.  extend()     *)
(* mutates an object in place, so it is seen through every alias.              *)
(* Buffer contents are abstracted to <<start, len, ok>>: ok = "exactly the     *)
(* described bytes of stream range [start, start+len)".                        *)
(* Variant "code"  : iter_pieces as found at the pinned commit                 *)
(* Variant "fixed" : iter_pieces after the repair (full pieces are yielded at  *)
(*                   once and the carried buffer reset; the trailing partial   *)
(*                   piece is yielded after the last file)                     *)
EXTENDS Core, RecheckRef
CONSTANTS MaxFiles, MaxSize, PieceLens, Variant, WithPads

Empty == <<0, 0, TRUE>>
Start(recs, f) == SumTo(recs, f - 1)

\* extend buffer c by n bytes that are (intact ? the described bytes at stream pos g : something else)
Ext(c, g, n, intact) ==
    IF n = 0 THEN c
    ELSE IF c[2] = 0 THEN <<g, n, intact>>
    ELSE <<c[1], c[2] + n, c[3] /\ intact /\ c[1] + c[2] = g>>

InitSt(recs, kinds, disk, P) ==
    [pc |-> "file", recs |-> recs, kinds |-> kinds, disk |-> disk, P |-> P, i |-> 1,
     heap |-> <<Empty>>, ip |-> 1, loc |-> 1, read |-> 0, via |-> "none", out |-> <<>>, cnt |-> 0]

NP(st) == CeilDiv(Total(st.recs), st.P)
\* FeedChecker.__next__: hash the delivered buffer, compare with recorded piece number cnt
Emit(st, c) ==
    LET good == /\ st.cnt < NP(st) /\ c[3] /\ c[2] > 0 /\ c[1] = st.cnt * st.P
                /\ c[2] = Min(st.P, Total(st.recs) - st.cnt * st.P)
    IN [st EXCEPT !.out = Append(st.out, <<good, c[2]>>), !.cnt = st.cnt + 1]

\* what iter_pieces does with an object yielded by extract / _gen_padding
Deliver(st, id) ==
    LET c == st.heap[id]
        n == Len(st.recs)
    IN IF Variant = "code"
       THEN IF c[2] = st.P \/ (st.via = "extract" /\ st.i = n)
            THEN Emit(st, c)
            ELSE [st EXCEPT !.ip = id]
       ELSE \* fixed
            IF c[2] = st.P
            THEN LET s2 == Emit(st, c) IN
                 [s2 EXCEPT !.heap = Append(s2.heap, Empty), !.ip = Len(s2.heap) + 1]
            ELSE [st EXCEPT !.ip = id]

NewObj(st) == [st EXCEPT !.heap = Append(st.heap, Empty), !.loc = Len(st.heap) + 1]
SetLoc(st, c) == [st EXCEPT !.heap[st.loc] = c]
EndFile(st) == [st EXCEPT !.pc = "file", !.i = st.i + 1, !.via = "none"]

Step(st) ==
  LET n == Len(st.recs)
      P == st.P
  IN
  IF st.pc = "file" THEN
      IF st.i > n THEN
          IF Variant = "fixed" /\ st.heap[st.ip][2] > 0
          THEN [Emit(st, st.heap[st.ip]) EXCEPT !.pc = "done"]
          ELSE [st EXCEPT !.pc = "done"]
      ELSE IF st.disk[st.i].present /\ st.kinds[st.i] = "f" THEN     \* os.path.exists: extract()
          LET s1 == [st EXCEPT !.read = 0, !.via = "extract", !.pc = "ex"]
          IN IF st.heap[st.ip][2] = P THEN NewObj(s1) ELSE [s1 EXCEPT !.loc = st.ip]
      ELSE [st EXCEPT !.read = 0, !.via = "missing", !.pc = "pad", !.loc = st.ip]
  ELSE IF st.pc = "ex" THEN                           \* one iteration of extract's while True
      LET d == st.disk[st.i]
          rec == st.recs[st.i]
          c == st.heap[st.loc]
          bitlength == P - c[2]
          amount == Min(bitlength, d.len - st.read)
          read2 == st.read + amount
          intact == \A o \in st.read .. (read2 - 1) : o \notin d.flips /\ o < rec
          c2 == Ext(c, Start(st.recs, st.i) + st.read, amount, intact)
          s1 == [SetLoc(st, c2) EXCEPT !.read = read2]
      IN IF amount < bitlength THEN
             LET s2 == IF amount > 0 /\ read2 = rec THEN Deliver(s1, s1.loc) ELSE s1
             IN IF rec # read2 THEN [s2 EXCEPT !.pc = "pad"] ELSE EndFile(s2)
         ELSE NewObj(Deliver(s1, s1.loc))
  ELSE IF st.pc = "pad" THEN                          \* one iteration of _gen_padding's while
      LET rec == st.recs[st.i]
          c == st.heap[st.loc]
          left == P - c[2]
          ispad == st.kinds[st.i] = "p"
          g == Start(st.recs, st.i) + st.read
      IN IF st.read >= rec THEN EndFile(st)
         ELSE IF rec - st.read > left THEN
             LET s1 == SetLoc(st, Ext(c, g, left, ispad))
             IN [NewObj(Deliver(s1, s1.loc)) EXCEPT !.read = st.read + left]
         ELSE
             LET s1 == SetLoc(st, Ext(c, g, rec - st.read, ispad))
             IN [Deliver(s1, s1.loc) EXCEPT !.read = rec]
  ELSE st

RECURSIVE Run(_, _)
Run(st, fuel) == IF st.pc = "done" \/ fuel = 0 THEN st ELSE Run(Step(st), fuel - 1)

(* ---- model checking ------------------------------------------------------- *)
VARIABLE st
DiskStates(rec) ==
    {[present |-> FALSE, len |-> 0, flips |-> {}]}
    \cup {[present |-> TRUE, len |-> l, flips |-> {}] : l \in 0 .. rec}
    \cup {[present |-> TRUE, len |-> rec, flips |-> {o}] : o \in 0 .. (rec - 1)}
Absent == [present |-> FALSE, len |-> 0, flips |-> {}]
Init == \E n \in 1 .. MaxFiles, P \in PieceLens :
        \E recs \in [1 .. n -> 0 .. MaxSize] :
        \E kinds \in [1 .. n -> IF WithPads THEN {"f", "p"} ELSE {"f"}] :
        \E disk \in [1 .. n -> UNION {DiskStates(r) : r \in 0 .. MaxSize}] :
            /\ Total(recs) > 0
            /\ \A f \in 1 .. n : disk[f] \in DiskStates(recs[f])
            /\ \A f \in 1 .. n : kinds[f] = "p" => (disk[f] = Absent /\ f > 1 /\ kinds[f - 1] = "f")
            /\ st = InitSt(recs, kinds, disk, P)
Next == st.pc # "done" /\ st' = Step(st)
Spec == Init /\ [][Next]_st
\* liveness: the iteration ends for every input (weak fairness = the caller keeps calling next())
FairSpec == Spec /\ WF_st(Next)
Terminates == <>(st.pc = "done")

Ref(s) == V1Verdicts(s.recs, s.kinds, s.disk, s.P)
\* C16: the verdict stream is the reference one, piece for piece
StreamCorrect == st.pc = "done" => st.out = Ref(st)
\* C16: sizes add up to the payload
TotalCorrect == st.pc = "done" => ConsumedBytes(st.out) = Total(st.recs)
\* C05 / C04 as corollaries
Hundred == st.pc = "done" =>
              (SharePpm(st.out) = 100000000 <=> Intact(st.recs, st.kinds, st.disk))
\* the interval formulation of the reference equals its byte-wise meaning
RefFormsAgree == \A k \in 0 .. (NP(st) - 1) :
                    V1PieceOK(st.recs, st.kinds, st.disk, st.P, k)
                      = V1PieceOKBytewise(st.recs, st.kinds, st.disk, st.P, k)
Bounded == Len(st.out) <= NP(st) + 2 /\ Len(st.heap) <= 4 * (NP(st) + Len(st.recs)) + 4
=============================================================================
