----------------------------- MODULE TraceCreate -----------------------------
(* Trace specification for metafile creation.  Every record of the trace is    *)
(* one execution of a creator of the real code (library class or CLI) on a     *)
(* materialised payload, abstracted by the harness (vh/alpha.py).  TLC         *)
(* consumes every record and evaluates the clauses the record names against    *)
(* the reference layer (BEP3, BEP52); a clause that does not hold is printed   *)
(* as <<"FAIL", id, clause>> - verdicts are total, nothing stops at the first  *)
(* rejection.  Group state (grp) carries what must be equal across the         *)
(* members of one group (C08 metamorphic variants, C10 creator pairs).         *)
EXTENDS Core, BEP3, BEP52, TLC, Json, IOUtils

Recs == ndJsonDeserialize(IOEnv.TRACE_FILE)
\* the implementation-shaped hasher models at the real block size: what THEY predict (clause M10.impl)
HV == INSTANCE HasherV2 WITH MaxPieces <- 0, PieceLens <- {}, Classes <- {}, Variant <- "code", st <- 0
AS == INSTANCE Assemble WITH MaxFiles <- 0, MaxSize <- 0, PieceLens <- {}, Variant <- "code", sizes <- 0, P <- 0, single <- 0
H1 == INSTANCE HasherV1 WITH MaxFiles <- 0, MaxSize <- 0, PieceLens <- {}, Variant <- "fixed", Aligns <- {}, st <- 0

VARIABLES i, grp
vars == <<i, grp>>

(* ---------- helpers over the abstracted metafile ---------------------------- *)
Payload(m) == SelectSeq(m.files, LAMBDA e : ~e.pad)
Lens(es) == [k \in DOMAIN es |-> es[k].length]
PL(es) == [k \in DOMAIN es |-> <<es[k].path, es[k].length>>]
DiskPL(r) == [k \in DOMAIN r.disk |-> <<r.disk[k].path, r.disk[k].size>>]
LeafPL(m) == [k \in DOMAIN m.leaves |-> <<m.leaves[k].path, m.leaves[k].length>>]
WellFormed(m) == \A k \in DOMAIN m.files : m.files[k].wf /\ m.files[k].length >= 0

\* the declared v1 stream: total length and piece check
DeclTotal(m) == IF m.has_files THEN SumSeq(Lens(m.files)) ELSE m.length
PiecesAre(m, total) ==
    /\ m.plen > 0
    /\ m.pieces_len = 20 * NumPieces(total, m.plen)
    /\ Len(m.pieces) = NumPieces(total, m.plen)
    /\ \A k \in DOMAIN m.pieces : RefS(total, m.plen, k - 1) \in SeqToSet(m.pieces[k])
StartsOK(m) == LET st == StartsOf(Lens(m.files), 0)
               IN \A k \in DOMAIN m.files : ~m.files[k].pad => st[k] % m.plen = 0
PadsOK(m) == \A k \in DOMAIN m.files : m.files[k].pad =>
                 /\ k > 1 /\ ~m.files[k - 1].pad
                 /\ m.files[k].length = PadGap(m.files[k - 1].length, m.plen)
                 /\ m.files[k].length > 0
SingleDisk(r) == Len(r.disk) = 1 /\ r.disk[1].path = <<>>

InGrp(r) == grp.n > 0 /\ grp.id = r.group

(* ---------- clauses ---------------------------------------------------------- *)
Clause(r, c) ==
  LET m == r.meta IN
  CASE c = "C01.list" ->
         IF r.single THEN ~m.has_files /\ SingleDisk(r) /\ m.length = r.disk[1].size
         ELSE /\ m.has_files /\ m.length = -1 /\ WellFormed(m)
              /\ \A k \in DOMAIN m.files : ~m.files[k].pad
              /\ IsPermutation(PL(m.files), DiskPL(r))
    [] c = "C01.pieces" -> (m.has_files => WellFormed(m)) /\ PiecesAre(m, DeclTotal(m))
                           /\ m.stream_len = DeclTotal(m)
    [] c = "C01.plen" -> m.plen > 0 /\ (r.P > 0 => m.plen = r.P)
    [] c = "C01.name" -> m.name = r.name
    [] c = "M01.impl" ->   \* the implementation-shaped Hasher model predicts the piece string (listed order)
         LET sizes == IF m.has_files THEN Lens(m.files) ELSE <<m.length>>
             out == H1!HasherOut(sizes, m.plen, FALSE)
         IN /\ Len(out) = Len(m.pieces)
            /\ \A j \in DOMAIN out : <<"S", out[j][2] \div m.plen, out[j][3], out[j][4]>> \in SeqToSet(m.pieces[j])
    \* ---- C15: piece-aligned v1 -------------------------------------------------
    [] c = "C15.list" -> r.single \/ (m.has_files /\ WellFormed(m)
                                      /\ IsPermutation(PL(Payload(m)), DiskPL(r)))
    [] c = "C15.boundary" -> r.single \/ (m.has_files /\ WellFormed(m) /\ StartsOK(m))
    [] c = "C15.gap" -> r.single \/ (m.has_files /\ WellFormed(m) /\ PadsOK(m))
    [] c = "C15.pieces" -> r.single \/ (m.has_files /\ WellFormed(m) /\ PiecesAre(m, DeclTotal(m)))
    [] c = "C15.count" -> r.single \/ (m.has_files /\ WellFormed(m) /\ m.plen > 0
                              /\ m.pieces_len = 20 * CeilDiv(DeclTotal(m), m.plen))
    [] c = "C15.single" -> r.single => (/\ ~m.has_files /\ SingleDisk(r)
                                        /\ m.length = r.disk[1].size
                                        /\ PiecesAre(m, m.length))
    \* ---- C02: v2 file tree, roots, piece layers --------------------------------
    [] c = "C02.tree" ->
         /\ m.has_tree /\ m.meta_version = 2 /\ NoDup(LeafPL(m))
         /\ IF r.single THEN /\ Len(m.leaves) = 1 /\ SingleDisk(r)
                             /\ m.leaves[1].path = <<r.name>>
                             /\ m.leaves[1].length = r.disk[1].size
            ELSE SeqToSet(LeafPL(m)) = SeqToSet(DiskPL(r)) /\ Len(m.leaves) = Len(r.disk)
    [] c = "C02.root" ->
         /\ m.plen > 0
         /\ \A f \in DOMAIN m.leaves : m.leaves[f].length > 0 =>
               /\ m.leaves[f].has_root /\ m.leaves[f].root_len = 32
               /\ RefRoot(f, m.leaves[f].length, m.plen) \in SeqToSet(m.leaves[f].root)
    [] c = "C02.empty" -> \A f \in DOMAIN m.leaves : m.leaves[f].length = 0 => ~m.leaves[f].has_root
    [] c = "C02.layers" ->
         \* one entry per distinct root of a file larger than a piece (files with identical bytes share
         \* their root, hence their entry: owners lists every leaf whose root equals the key)
         /\ m.has_layers /\ m.layers_is_dict /\ m.plen > 0
         /\ \A k \in DOMAIN m.layers :
               /\ Len(m.layers[k].owners) >= 1 /\ m.layers[k].key_len = 32
               /\ \A o \in SeqToSet(m.layers[k].owners) : InLayers(m.leaves[o].length, m.plen)
         /\ NoDup([k \in DOMAIN m.layers |-> m.layers[k].owners])
         /\ \A f \in DOMAIN m.leaves : InLayers(m.leaves[f].length, m.plen) =>
               \E k \in DOMAIN m.layers : f \in SeqToSet(m.layers[k].owners)
         /\ \A k \in DOMAIN m.layers :
               LET f == m.layers[k].owners[1]
                   ref == RefLayer(f, m.leaves[f].length, m.plen)
               IN /\ m.layers[k].val_len = 32 * Len(ref)
                  /\ Len(m.layers[k].hashes) = Len(ref)
                  /\ \A j \in DOMAIN ref : ref[j] \in SeqToSet(m.layers[k].hashes[j])
    \* ---- C03: hybrid, the two views describe the same payload -------------------
    [] c = "C03.order" ->
         IF r.single THEN ~m.has_files /\ Len(m.leaves) = 1 /\ m.length = m.leaves[1].length
         ELSE m.has_files /\ WellFormed(m) /\ PL(Payload(m)) = LeafPL(m)
    [] c = "C03.boundary" -> r.single \/ (m.has_files /\ WellFormed(m) /\ m.plen > 0 /\ StartsOK(m))
    [] c = "C03.padattr" -> r.single \/ (m.has_files /\ WellFormed(m) /\ m.plen > 0 /\
                              \A k \in DOMAIN m.files : m.files[k].pad => (k > 1 /\ ~m.files[k - 1].pad))
    [] c = "C03.pieces" -> r.single \/ (m.has_files /\ WellFormed(m) /\ PiecesAre(m, DeclTotal(m)))
    [] c = "M03.impl" ->   \* the Assemble model predicts the hybrid file list (payload and padding entries)
         LET sz == [k \in DOMAIN m.leaves |-> m.leaves[k].length]
             a == AS!Assembled(sz, m.plen, r.single)
         IN [k \in DOMAIN m.files |-> <<IF m.files[k].pad THEN "p" ELSE "f", m.files[k].length>>] = a.files
    [] c = "C03.single" -> r.single => (/\ ~m.has_files /\ SingleDisk(r)
                                        /\ m.length = r.disk[1].size
                                        /\ PiecesAre(m, m.length))
    \* ---- group clauses (C08 / C10 / C20): equality with the first member ---------
    [] c = "C10.creators" -> ~InGrp(r) \/ (m.infohash1 = grp.info /\ m.layers_sig = grp.layers)
    [] c = "C08.name" -> m.name = r.name
    [] c = "C08.info" -> ~InGrp(r) \/ m.infohash1 = grp.info
    [] c = "C08.rest" -> ~InGrp(r) \/ ~(r.outer = grp.outer) \/ m.rest_sig = grp.rest
    [] OTHER -> FALSE

Holds(r, c) == r.status = "ok" /\ r.meta.decodable /\ r.meta.has_info /\ Clause(r, c)

(* ---------- hasher records (C10.hashers / C02 / C03 at hasher level) --------- *)
HasherClause(r, c) ==
  LET P == r.P
      sz == r.size
      refroot == RefRoot(1, sz, P)
      reflayer == IF sz > P THEN RefLayer(1, sz, P) ELSE <<refroot>>
      RootOK(h) == refroot \in SeqToSet(h.root)
      LayerOK(h) == Len(h.layer) = Len(reflayer) /\
                    \A j \in DOMAIN reflayer : reflayer[j] \in SeqToSet(h.layer[j])
      PiecesOK(h) == Len(h.pieces) = CeilDiv(sz, P) /\
                     \A j \in DOMAIN h.pieces :
                        LET len == Min(P, sz - (j - 1) * P)
                        IN <<"S", j - 1, len, P - len>> \in SeqToSet(h.pieces[j])
  IN CASE c = "C10.hashers" ->
            /\ \A k \in DOMAIN r.hashers : r.hashers[k].status = "ok" /\ RootOK(r.hashers[k]) /\ LayerOK(r.hashers[k])
            /\ \A k \in DOMAIN r.hashers : r.hashers[k].hybrid =>
                   PiecesOK(r.hashers[k]) /\ r.hashers[k].padding = PadGap(sz, P)
            /\ \A k, l \in DOMAIN r.hashers :
                   /\ r.hashers[k].rootsig = r.hashers[l].rootsig
                   /\ r.hashers[k].layersig = r.hashers[l].layersig
                   /\ (r.hashers[k].hybrid /\ r.hashers[l].hybrid) => r.hashers[k].piecesig = r.hashers[l].piecesig
       [] c = "C02.hashers" ->   \* every v2-capable hasher gives the BEP 52 root and piece layer
            \A k \in DOMAIN r.hashers : r.hashers[k].status = "ok" /\ RootOK(r.hashers[k]) /\ LayerOK(r.hashers[k])
       [] c = "M10.impl" ->    \* each hasher's output is what its implementation-shaped model computes
            \A k \in DOMAIN r.hashers :
                LET h == r.hashers[k]
                    cls == IF h.cls = "HasherV2" THEN "V2" ELSE IF h.cls = "HasherHybrid" THEN "HY"
                           ELSE IF h.hybrid THEN "FHh" ELSE "FH"
                    mdl == HV!Result(cls, sz, P)
                IN /\ h.status = "ok"
                   /\ mdl.root \in SeqToSet(h.root)
                   /\ Len(mdl.layer) = Len(h.layer)
                   /\ \A j \in DOMAIN mdl.layer : mdl.layer[j] \in SeqToSet(h.layer[j])
                   /\ h.hybrid => (/\ Len(mdl.pieces) = Len(h.pieces)
                                    /\ \A j \in DOMAIN mdl.pieces :
                                          <<"S", mdl.pieces[j][2] \div P, mdl.pieces[j][3], mdl.pieces[j][4]>>
                                             \in SeqToSet(h.pieces[j])
                                    /\ h.padding = mdl.padding)
       [] c = "C10.steps" ->   \* FileHasher's public iterator: step k yields layer hash k (and piece k)
            \A k \in DOMAIN r.hashers : r.hashers[k].iter =>
                 /\ Len(r.hashers[k].yields) = CeilDiv(sz, P)
                 /\ r.hashers[k].yieldsig = r.hashers[k].layersig
       [] OTHER -> FALSE

\* C09: each step of a history gives what a fresh interpreter gives on the same filesystem state,
\* and a created metafile describes the CURRENT tree (the reference clauses of C01 / C02 / C03)
SysClause(r, c) ==
  CASE c = "C09.fresh" -> r.status = r.fresh_status /\ r.sig = r.fresh_sig
    [] c = "C09.create" ->
         IF r.version = 1 /\ r.align THEN Holds(r, "C15.list") /\ Holds(r, "C15.gap") /\ Holds(r, "C15.pieces")
                                            /\ Holds(r, "C15.single")       \* (the three above are vacuous for a single file)
         ELSE IF r.version = 1 THEN Holds(r, "C01.list") /\ Holds(r, "C01.pieces")
         ELSE /\ Holds(r, "C02.tree") /\ Holds(r, "C02.root") /\ Holds(r, "C02.empty") /\ Holds(r, "C02.layers")
              /\ (r.version = 3 => (Holds(r, "C03.order") /\ Holds(r, "C03.pieces")))
    [] OTHER -> FALSE

\* scaled world: the real v1 Hasher run on the universe HasherV1.tla is model-checked on (descriptors
\* carry byte offsets of the plain stream, exactly as in HasherV1.tla)
Hasher1Clause(r, c) ==
  LET ref == IF r.align THEN H1!RefAligned(r.sizes, r.P, TRUE) ELSE H1!RefPlain(r.sizes, r.P)
      Match(exp) == Len(exp) = Len(r.pieces) /\ \A j \in DOMAIN exp : exp[j] \in SeqToSet(r.pieces[j])
  IN CASE c = "C01.scaled" -> r.status = "ok" /\ (~r.align => Match(ref))
       [] c = "C15.scaled" -> r.status = "ok" /\ (r.align => Match(ref))
       [] c = "M01.scaled" -> Match(H1!HasherOut(r.sizes, r.P, r.align))
       [] OTHER -> FALSE

Eval(r, c) == IF r.op = "hasher1" THEN Hasher1Clause(r, c)
              ELSE IF r.op = "hashers" THEN HasherClause(r, c)
              ELSE IF c \in {"C09.fresh", "C09.create"} THEN SysClause(r, c)
              ELSE Holds(r, c)

\* IF (not \/): inside an action TLC would explore both disjuncts and print regardless
Report(r) == \A k \in DOMAIN r.clauses :
                IF Eval(r, r.clauses[k]) THEN TRUE ELSE PrintT(<<"FAIL", r.id, r.clauses[k]>>)

NewGrp(r) == IF r.op = "create" /\ r.group # "none" /\ r.status = "ok" /\ r.meta.decodable /\ r.meta.has_info
             THEN IF grp.n > 0 /\ grp.id = r.group THEN grp
                  ELSE [n |-> 1, id |-> r.group, info |-> r.meta.infohash1, layers |-> r.meta.layers_sig,
                        rest |-> r.meta.rest_sig, outer |-> r.outer]
             ELSE IF r.op = "create" /\ r.group # "none" /\ grp.n > 0 /\ grp.id = r.group THEN grp
             ELSE [n |-> 0, id |-> "none", info |-> "", layers |-> "", rest |-> "", outer |-> ""]

Init == i = 0 /\ grp = [n |-> 0, id |-> "none", info |-> "", layers |-> "", rest |-> "", outer |-> ""]
Next == /\ i < Len(Recs)
        /\ LET r == Recs[i + 1] IN
           /\ Report(r)
           /\ grp' = NewGrp(r)
        /\ i' = i + 1
Spec == Init /\ [][Next]_vars
AllConsumed == TLCGet("stats").diameter = Len(Recs) + 1
=============================================================================
