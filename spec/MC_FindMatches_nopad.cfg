SPECIFICATION Spec
CONSTANTS
  Variant = "nopad"
  AllowPartialFirst = FALSE
  MaxFiles = 3
  MaxSize = 3
  P = 2
  Classes = {"intact", "pad"}
INVARIANT Safe
INVARIANT CompleteRun
INVARIANT ClosureAgrees
CHECK_DEADLOCK FALSE
