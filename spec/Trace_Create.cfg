SPECIFICATION Spec
CONSTANT B = 16384
POSTCONDITION AllConsumed
CHECK_DEADLOCK FALSE
