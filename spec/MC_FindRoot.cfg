SPECIFICATION Spec
CONSTANT Variant = "fixed"
INVARIANT FromRoot
INVARIANT FromParent
CHECK_DEADLOCK FALSE
