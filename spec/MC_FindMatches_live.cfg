SPECIFICATION FairSpec
CONSTANTS
  Variant = "fixed"
  AllowPartialFirst = FALSE
  MaxFiles = 2
  MaxSize = 4
  P = 2
  Classes = {"intact", "decoy_all", "decoy_some", "decoy_head", "longer"}
CHECK_DEADLOCK FALSE
PROPERTY Terminates
