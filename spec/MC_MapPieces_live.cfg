SPECIFICATION FairSpec
CONSTANTS
  MaxFiles = 4
  MaxSize = 5
  PieceLens = {2, 3}
  Variant = "fixed"
CHECK_DEADLOCK FALSE
PROPERTY Terminates
