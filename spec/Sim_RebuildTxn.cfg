SPECIFICATION Spec
CONSTANTS
  Variant = "fixed"
  MaxEntries = 4
INVARIANT EmitTxn
CONSTRAINT AtStart
CHECK_DEADLOCK FALSE
