SPECIFICATION Spec
CONSTANT Variant = "checkonly"
INVARIANT Safe
CHECK_DEADLOCK FALSE
