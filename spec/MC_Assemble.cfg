SPECIFICATION Spec
CONSTANTS
  B = 2
  MaxFiles = 3
  MaxSize = 9
  PieceLens = {2, 4}
  Variant = "code"
INVARIANT TreeCorrect
INVARIANT LayersCorrect
INVARIANT HybridOrder
INVARIANT HybridBoundaries
INVARIANT HybridPieces
CHECK_DEADLOCK FALSE
