----------------------------- MODULE PieceLength -----------------------------
(* C12: which piece-length arguments are accepted, what they normalise to,     *)
(* and the automatic choice.                                                   *)
(* Reference:  Valid(x) - x is a power of two >= 2^14, or an exponent 14..25;  *)
(*             Norm(x)  - the set of admissible results (exponents 26..29 may  *)
(*                        be read as 2^x or rejected: the manual and the help  *)
(*                        text disagree, the property leaves both open).       *)
(* Implementation-shaped: the branches of utils.normalize_piece_length.        *)
(*   Variant "code"  : pinned commit - float log2 test for x > 2^14 (modelled  *)
(*                     as an oracle that MAY answer "equal" for a non-power:   *)
(*                     2**log2(x) is computed in floating point), and small    *)
(*                     powers 32..8192 fall through to the last branch         *)
(*   Variant "fixed" : integer bit test                                        *)
EXTENDS Core
CONSTANTS Variant, MaxExp

MinP == 16384
Valid(x) == (x >= MinP /\ IsPow2(x)) \/ (x >= 14 /\ x <= 25)
Optional(x) == x >= 26 /\ x <= 29
Norm(x) == IF x >= MinP /\ IsPow2(x) THEN {x}
           ELSE IF x >= 14 /\ x <= 25 THEN {Pow2(x)}
           ELSE IF Optional(x) THEN {Pow2(x)} ELSE {}
\* verdict: <<"accept", value>> | <<"reject", 0>>
Allowed(x) == {<<"accept", v>> : v \in Norm(x)} \cup (IF Valid(x) THEN {} ELSE {<<"reject", 0>>})

(* the implementation: set of possible verdicts (a set because of the float oracle) *)
Impl(x) ==
    IF Variant = "code" THEN
        IF x > MinP THEN
            IF IsPow2(x) THEN {<<"accept", x>>}
            ELSE {<<"reject", 0>>, <<"accept", x>>}          \* 2**math.log2(x) == x may hold
        ELSE IF 13 < x /\ x < 26 THEN {<<"accept", Pow2(x)>>}
        ELSE IF x <= 13 THEN {<<"reject", 0>>}
        ELSE IF IsPow2(x) THEN {<<"accept", x>>}              \* 32 .. 16384 returned as is
        ELSE {<<"reject", 0>>}
    ELSE \* fixed
        IF 13 < x /\ x < 26 THEN {<<"accept", Pow2(x)>>}
        ELSE IF x >= MinP /\ IsPow2(x) THEN {<<"accept", x>>}
        ELSE {<<"reject", 0>>}

(* automatic choice: utils.get_piece_length, in integer arithmetic (size / 2^e > 1000) *)
RECURSIVE AutoFrom(_, _)
AutoFrom(size, e) == IF size > 1000 * Pow2(e) /\ e < 24 THEN AutoFrom(size, e + 1) ELSE Pow2(e)
Auto(size) == AutoFrom(size, 14)

(* ---- model checking: x ranges over the boundary domain ------------------------ *)
Domain == (-3 .. 70) \cup {Pow2(k) + d : k \in 5 .. MaxExp, d \in {-1, 0, 1}}
                     \cup {3 * Pow2(k) : k \in 3 .. (MaxExp - 2)}
AutoSizes == {0, 1} \cup {1000 * Pow2(e) + d : e \in 14 .. 20, d \in {-1, 0, 1}}   \* 32-bit safe thresholds
VARIABLES x, verdict
Init == x \in Domain /\ verdict = <<"none", 0>>
Next == verdict[1] = "none" /\ verdict' \in Impl(x) /\ UNCHANGED x
Spec == Init /\ [][Next]_<<x, verdict>>
Refines == verdict[1] # "none" => verdict \in Allowed(x)
AutoOK == \A s \in AutoSizes : IsPow2(Auto(s)) /\ Auto(s) >= MinP /\ Auto(s) <= Pow2(24)
AutoMonotone == \A s, t \in AutoSizes : s <= t => Auto(s) <= Auto(t)
=============================================================================
