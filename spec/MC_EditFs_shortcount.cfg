SPECIFICATION Spec
CONSTANT Variant = "shortcount"
INVARIANT NeverLost
INVARIANT ErrorLeavesComplete
INVARIANT DoneIsNew
CHECK_DEADLOCK FALSE
