SPECIFICATION Spec
CONSTANTS
  MaxFiles = 4
  MaxSize = 5
  PieceLens = {2, 3}
  Variant = "fixed"
INVARIANT MapCorrect
INVARIANT AllFilesMapped
CHECK_DEADLOCK FALSE
