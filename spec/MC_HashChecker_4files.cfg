SPECIFICATION Spec
CONSTANTS
  MaxFiles = 4
  MaxSize = 3
  PieceLens = {2}
  Variant = "fixed"
INVARIANT StreamCorrect
INVARIANT TotalCorrect
INVARIANT Hundred
CHECK_DEADLOCK FALSE
