SPECIFICATION Spec
CONSTANT Variant = "charprefix"
INVARIANT Safe
CHECK_DEADLOCK FALSE
