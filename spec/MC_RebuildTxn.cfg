SPECIFICATION Spec
CONSTANTS
  Variant = "fixed"
  MaxEntries = 4
INVARIANT OutsideUntouched
INVARIANT PlacedAsModelled
INVARIANT RollbackClean
CHECK_DEADLOCK FALSE
