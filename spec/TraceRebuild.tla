----------------------------- MODULE TraceRebuild -----------------------------
(* Trace specification for rebuild (C13, C14, C19): a record is one run (or    *)
(* two consecutive runs) of the real Assembler on a scenario built by the      *)
(* harness, observed through before/after snapshots and the operation log.     *)
EXTENDS Core, RebuildRef, TLC, Json, IOUtils
Recs == ndJsonDeserialize(IOEnv.TRACE_FILE)
VARIABLE i
\* the implementation-shaped matching model at the record's piece length (clause M13.impl)
\* (a module constant cannot be instantiated with a value read from the trace, hence one instance per
\* piece length the rebuild scenarios use)
FM16 == INSTANCE FindMatches WITH Variant <- "fixed", AllowPartialFirst <- TRUE, MaxFiles <- 0, MaxSize <- 0, P <- 16384,
                                  Classes <- {}, sizes <- 0, cands <- 0, dest <- 0, dsize <- 0, copied <- 0,
                                  piece <- 0, pc <- 0
FM32 == INSTANCE FindMatches WITH Variant <- "fixed", AllowPartialFirst <- TRUE, MaxFiles <- 0, MaxSize <- 0, P <- 32768,
                                  Classes <- {}, sizes <- 0, cands <- 0, dest <- 0, dsize <- 0, copied <- 0,
                                  piece <- 0, pc <- 0
\* the model works on the files in the order of the v1 stream (r.stream_order maps stream position
\* to the index in r.files); the prediction is mapped back to r.files order
FM2 == INSTANCE FindMatches WITH Variant <- "fixed", AllowPartialFirst <- TRUE, MaxFiles <- 0, MaxSize <- 0, P <- 2,
                                 Classes <- {}, sizes <- 0, cands <- 0, dest <- 0, dsize <- 0, copied <- 0,
                                 piece <- 0, pc <- 0
\* r.stream: the whole v1 list in metafile order - payload files (f = index into r.files) and padding
\* entries (f = 0), each with its length
ImplAfter(r) ==
    LET st == r.stream
        sz == [k \in DOMAIN st |-> st[k].len]
        cd == [k \in DOMAIN st |-> IF st[k].f = 0 THEN <<"pad">> ELSE r.files[st[k].f].cands]
        d == IF r.P = 16384 THEN FM16!MatchAll(sz, cd) ELSE IF r.P = 2 THEN FM2!MatchAll(sz, cd) ELSE FM32!MatchAll(sz, cd)
        pos(f) == CHOOSE k \in DOMAIN st : st[k].f = f
    IN [f \in DOMAIN r.files |->
          LET k == pos(f) IN
          IF d[k] = 0 THEN "absent"
          ELSE IF cd[k][d[k]] = "intact" THEN "intact" ELSE "cand:" \o cd[k][d[k]]]

\* v2 / hybrid: per file the first same-sized candidate whose root matches (FindMatches!MatchV2)
ImplAfterV2(r) ==
    [f \in DOMAIN r.files |->
        LET cs == r.files[f].cands
            k == FM16!FirstV2(r.files[f].length, cs)
        IN IF k = 0 THEN "absent" ELSE IF cs[k] = "intact" THEN "intact" ELSE "cand:" \o cs[k]]

\* path resolution + destination test + copypath at the record's world (clause M19.impl)
PR == INSTANCE PathRes WITH Variant <- "fixed", w <- 0, entry <- 0, done <- 0
PlaceOf(r) == PR!Place([dirs |-> SeqToSet(r.world.dirs), files |-> SeqToSet(r.world.files),
                        links |-> {<<l[1], l[2]>> : l \in SeqToSet(r.world.links)}], r.world.dest, r.world.entry)

\* one rebuild as a sequence of entries (RebuildTxn.tla): what the code leaves in the destination when a copy fails half way
TX == INSTANCE RebuildTxn WITH Variant <- "fixed", MaxEntries <- 4, entries <- 0, pc <- 0, status <- 0, inside <- 0,
                               victims <- 0, recorded <- 0, validated <- 0
Clause(r, c) ==
  CASE c = "M19.txn" -> SeqToSet(r.placed) = TX!FixedPlaced(r.txn)
    [] c = "M19.impl" -> SeqToSet(PlaceOf(r).muts) = SeqToSet(r.touched)
    [] c = "M13.impl" -> r.status # "ok" \/ r.P \notin {2, 16384, 32768} \/ r.ntorrents # 1 \/ r.runs # 1
                         \/ (\E k \in DOMAIN r.files : r.files[k].dest_pre # "absent")
                         \/ [k \in DOMAIN r.files |-> r.files[k].after] = (IF r.version = 1 THEN ImplAfter(r) ELSE ImplAfterV2(r))
    [] c = "C13.complete" -> r.status = "ok" /\ Complete(r.files)
    \* every counted file is present afterwards: a file can be counted once per time its metafile was
    \* given (r.files[k].given; 1 unless the caller names the same metafile twice), and only if present
    [] c = "C13.count" -> r.status = "ok" /\ r.count >= 0
                          /\ r.count <= SumSeq([k \in DOMAIN r.files |->
                                                   IF r.files[k].after \in {"absent", "n/a"} THEN 0 ELSE r.files[k].given])
    \* the same bound for runs that may legitimately fail (something in the destination is in the way of a copy):
    \* either the run reports the failure, or what it counts is there
    [] c = "C13.countsafe" -> r.status # "ok" \/ (r.count >= 0 /\ r.count <= SumSeq([k \in DOMAIN r.files |->
                                                   IF r.files[k].after \in {"absent", "n/a"} THEN 0 ELSE r.files[k].given]))
    [] c = "C14.sources" -> r.sources_unchanged /\ r.metas_unchanged
    [] c = "C14.fulllen" -> FullLengthKept(r.files)
    [] c = "C14.copy" -> \A k \in DOMAIN r.written :
                            r.written[k].recorded /\ r.written[k].copy_of_candidate /\ r.written[k].length_ok
    [] c = "C14.decoy" -> NoDeadDecoy(r.files)
    [] c = "C19.inside" -> r.outside_ops = <<>> /\ r.outside_changed = <<>> /\ r.denied = <<>>
    [] OTHER -> FALSE
Report(r) == \A k \in DOMAIN r.clauses :
                IF Clause(r, r.clauses[k]) THEN TRUE ELSE PrintT(<<"FAIL", r.id, r.clauses[k]>>)
Init == i = 0
Next == i < Len(Recs) /\ Report(Recs[i + 1]) /\ i' = i + 1
Spec == Init /\ [][Next]_i
AllConsumed == TLCGet("stats").diameter = Len(Recs) + 1
=============================================================================
