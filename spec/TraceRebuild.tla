----------------------------- MODULE TraceRebuild -----------------------------
(* Trace specification for rebuild (C13, C14, C19): a record is one run (or    *)
(* two consecutive runs) of the real Assembler on a scenario built by the      *)
(* harness, observed through before/after snapshots and the operation log.     *)
EXTENDS Core, RebuildRef, TLC, Json, IOUtils
Recs == ndJsonDeserialize(IOEnv.TRACE_FILE)
VARIABLE i

Clause(r, c) ==
  CASE c = "C13.complete" -> r.status = "ok" /\ Complete(r.files)
    [] c = "C13.count" -> r.status = "ok" /\ r.count >= 0 /\ r.count <= r.present_after
    [] c = "C14.sources" -> r.sources_unchanged /\ r.metas_unchanged
    [] c = "C14.fulllen" -> FullLengthKept(r.files)
    [] c = "C14.copy" -> \A k \in DOMAIN r.written :
                            r.written[k].recorded /\ r.written[k].copy_of_candidate /\ r.written[k].length_ok
    [] c = "C14.decoy" -> NoDeadDecoy(r.files)
    [] c = "C19.inside" -> r.outside_ops = <<>> /\ r.outside_changed = <<>> /\ r.denied = <<>>
    [] OTHER -> FALSE
Report(r) == \A k \in DOMAIN r.clauses :
                IF Clause(r, r.clauses[k]) THEN TRUE ELSE PrintT(<<"FAIL", r.id, r.clauses[k]>>)
Init == i = 0
Next == i < Len(Recs) /\ Report(Recs[i + 1]) /\ i' = i + 1
Spec == Init /\ [][Next]_i
AllConsumed == TLCGet("stats").diameter = Len(Recs) + 1
=============================================================================
