------------------------------- MODULE FindRoot -------------------------------
(* Checker.find_root / _holds_content (C05: "the verdict is the same whether   *)
(* the content path given is the payload root itself or its parent             *)
(* directory").  The function has to decide, from names alone and a look at    *)
(* the first file the metafile describes, whether the path it was given IS the *)
(* payload root or CONTAINS it - which is ambiguous exactly when directories   *)
(* above or below the payload carry the payload's own name.                    *)
(*                                                                             *)
(* A filesystem is [files, dirs]: sets of paths; a path is a sequence of       *)
(* names.  A metafile is [name, kind, first]:                                  *)
(*   kind "files"  - v1 / hybrid directory torrent (info.files present)        *)
(*   kind "length" - single-file torrent with info.length                     *)
(*   kind "tree"   - v2-only (file tree only): directory, or a single file     *)
(*                   without info.length                                       *)
(*   first         - path of the first described file relative to the root     *)
(*                   (<<name>> for a v2-only single file, <<>> for "length")   *)
(* Variant "code"   : pinned commit - a path whose last element equals the     *)
(*                    name is taken for the root, no look inside               *)
(* Variant "exists" : 5badd88 - looks inside with exists() (a directory of     *)
(*                    the right name passes for the first file)                *)
(* Variant "fixed"  : 53d2f22 - looks inside with is_file()                    *)
(* Variant "probefirst" : seed R16-C05 - any path that holds the first         *)
(*                    described file is taken for the root before names are    *)
(*                    looked at ("recheck a renamed folder"); wrong when the   *)
(*                    PARENT happens to hold a file at that relative path      *)
EXTENDS Core, FiniteSets, TLC
CONSTANTS Variant

IsFile(fs, p) == p \in fs.files
IsDir(fs, p) == p \in fs.dirs
Exists(fs, p) == IsFile(fs, p) \/ IsDir(fs, p)
Prefix(p, q) == Len(p) <= Len(q) /\ SubSeq(q, 1, Len(p)) = p
Listing(fs, p) == {q[Len(p) + 1] : q \in {r \in fs.files \cup fs.dirs : Len(r) = Len(p) + 1 /\ Prefix(p, r)}}
Last(p) == p[Len(p)]

Present(fs, p) == IF Variant = "exists" THEN Exists(fs, p) ELSE IsFile(fs, p)
\* _holds_content(base)
Holds(fs, meta, base) ==
    CASE meta.kind = "files"  -> Present(fs, base \o meta.first)
      [] meta.kind = "length" -> IsFile(fs, base)
      [] OTHER -> \/ (meta.first = <<meta.name>> /\ IsFile(fs, base))
                  \/ (meta.first # <<>> /\ Present(fs, base \o meta.first))

Error == <<"error">>
FindRoot(fs, meta, path) ==
    IF ~Exists(fs, path) THEN Error
    ELSE IF Variant = "probefirst" /\ Holds(fs, meta, path) THEN path
    ELSE IF Last(path) = meta.name
    THEN LET inner == path \o <<meta.name>> IN
         IF Variant # "code" /\ Exists(fs, inner) /\ ~Holds(fs, meta, path) /\ Holds(fs, meta, inner)
         THEN inner ELSE path
    ELSE IF meta.name \in Listing(fs, path) THEN path \o <<meta.name>>
    ELSE Error

(* ---- the universe: intact payloads under directories that may carry the payload's name ---- *)
N == "n"
Chains == {<<"x">>, <<"n">>, <<"x", "n">>, <<"n", "n">>, <<"n", "x">>}     \* directories above the payload
\* file sets of a directory payload (relative paths); "n" below the root is a file or a directory
FileSets == {{<<"a">>}, {<<"n">>}, {<<"n", "a">>}, {<<"a">>, <<"n", "a">>}, {<<"a">>, <<"n">>},
             {<<"n", "n">>}, {<<"b", "n">>, <<"n", "c">>}, {<<"n", "n", "a">>, <<"z">>}}
\* raw-byte order of paths = the order in which this tool (and BEP 52) lists files
Ord(nm) == CASE nm = "a" -> 1 [] nm = "b" -> 2 [] nm = "c" -> 3 [] nm = "n" -> 4 [] nm = "other" -> 5
              [] nm = "x" -> 6 [] nm = "z" -> 7
RECURSIVE PathLess(_, _)
PathLess(p, q) == IF p = <<>> THEN q # <<>>
                  ELSE IF q = <<>> THEN FALSE
                  ELSE IF p[1] = q[1] THEN PathLess(Tail(p), Tail(q))
                  ELSE Ord(p[1]) < Ord(q[1])
First(S) == CHOOSE p \in S : \A q \in S \ {p} : PathLess(p, q)

\* noise next to the payload: nothing, an unrelated file, or a surplus file in the PARENT at the very relative path the
\* torrent's first file has below the root (a loose copy of track 1 lying next to the album folder)
World(chain, kind, fset, noise) ==
    LET root == chain \o <<N>>
        files == IF kind \in {"length", "tree1"} THEN {root} ELSE {root \o f : f \in fset}
        surplus == chain \o First(fset)
        extra == IF noise = "other" THEN {chain \o <<"other">>}
                 \* (not when the parent itself carries the payload's name: then parent and root BOTH look like a payload
                 \* root holding the first file, and nothing short of hashing could tell them apart)
                 ELSE IF noise = "first" /\ kind \in {"files", "tree"} /\ chain[Len(chain)] # N
                         /\ ~\E p \in files : Prefix(surplus, p) THEN {surplus}
                 ELSE {}
        allf == files \cup extra
        alld == UNION {{SubSeq(p, 1, k) : k \in 1 .. (Len(p) - 1)} : p \in allf}
    IN [fs |-> [files |-> allf, dirs |-> {d \in alld : d # <<>>}],
        meta |-> [name |-> N, kind |-> IF kind = "tree1" THEN "tree" ELSE kind,
                  first |-> IF kind = "length" THEN <<>> ELSE IF kind = "tree1" THEN <<N>> ELSE First(fset)],
        root |-> root, parent |-> chain]

VARIABLES w, done
vars == <<w, done>>
Init == /\ done = FALSE
        /\ \E chain \in Chains, kind \in {"files", "tree", "length", "tree1"}, fset \in FileSets, noise \in {"none", "other", "first"} :
              w = World(chain, kind, fset, noise)
Next == done = FALSE /\ done' = TRUE /\ UNCHANGED w
Spec == Init /\ [][Next]_vars

\* C05: the payload root is found from the root itself and from its parent directory
\* (a v2-only metafile of ONE file named like the torrent does not say whether that file is the payload
\* or lies in a directory of the same name: both readings describe the same bytes, either is right)
Right(r) == r = w.root \/ (w.meta.kind = "tree" /\ w.meta.first = <<N>> /\ r \o <<N>> = w.root)
\* emit the universe for replay into the real Checker (Sim_FindRoot.cfg)
EmitWorld == PrintT(<<"WORLD", [files |-> w.fs.files, dirs |-> w.fs.dirs, meta |-> w.meta, root |-> w.root, parent |-> w.parent]>>)
FromRoot == Right(FindRoot(w.fs, w.meta, w.root))
FromParent == Right(FindRoot(w.fs, w.meta, w.parent))
=============================================================================
