SPECIFICATION FairSpec
CONSTANTS
  Variant = "fixed"
  MaxEntries = 3
PROPERTY Terminates
CHECK_DEADLOCK FALSE
