SPECIFICATION Spec
CONSTANTS
  MaxFiles = 2
  MaxSize = 3
  PieceLens = {2}
  Variant = "code"
  WithPads = FALSE
INVARIANT StreamCorrect
INVARIANT TotalCorrect
INVARIANT Hundred
INVARIANT Bounded
CHECK_DEADLOCK FALSE
