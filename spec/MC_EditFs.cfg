SPECIFICATION Spec
CONSTANT Variant = "fixed"
INVARIANT NeverLost
INVARIANT ErrorLeavesComplete
INVARIANT DoneIsNew
CHECK_DEADLOCK FALSE
