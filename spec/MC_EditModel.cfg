SPECIFICATION Spec
CONSTANTS
  Variant = "fixed"
  MaxEdits = 2
  MaxLayers = 2
  Entries = {"lib", "cli"}
  MaxNamed = 2
  AllCreates = FALSE
VIEW View
INVARIANT Canonical
INVARIANT Structure
INVARIANT PresenceOK
PROPERTY EditRefines
CHECK_DEADLOCK FALSE
