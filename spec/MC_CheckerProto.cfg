SPECIFICATION Spec
CONSTANTS
  Variant = "fixed"
  MaxPieces = 3
  MaxCalls = 7
VIEW View
INVARIANT Exact
INVARIANT Hundred
INVARIANT WalkSound
CHECK_DEADLOCK FALSE
