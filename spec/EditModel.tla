----------------------------- MODULE EditModel -----------------------------
(* Write path and edit semantics (C06, C07).                                   *)
(* Abstract metafile: the ORDER in which keys are written at the three levels  *)
(* the tool builds itself (top level, info, piece layers) and the abstract     *)
(* value of the six editable fields.  pyben.dump emits dictionaries in         *)
(* insertion order, so canonicity is a property of these orders.               *)
(*   Create : MetaFile.__init__ + assemble + sort_meta + write                 *)
(*   Edit   : commands.edit (CLI namespace -> args) / edit_torrent (library):  *)
(*            filter_empty, field-by-field assignment, dump                    *)
(* Variant "code"  : as found at the pinned commit (piece layers in traversal  *)
(*                   order; edit appends new keys; CLI --private defaults to   *)
(*                   False which filter_empty takes for "named")               *)
(* Variant "fixed" : after the repairs (piece layers sorted on create; edit    *)
(*                   re-sorts the three levels; CLI --private defaults to None)*)
(* The reference semantics of an edit request is ApplyEdit (EditSem part).     *)
(* hist is a history variable used only to emit behaviours for replay.         *)
EXTENDS Core, TLC
CONSTANTS Variant, MaxEdits, MaxLayers, Entries, MaxNamed, AllCreates

AllOrder == <<"announce", "announce-list", "comment", "created by", "creation date", "file tree",
              "files", "httpseeds", "info", "length", "meta version", "name", "piece layers",
              "piece length", "pieces", "private", "source", "url-list">>
Rank(k) == CHOOSE n \in DOMAIN AllOrder : AllOrder[n] = k
Ascending(keys) == \A a \in 1 .. Len(keys) - 1 : Rank(keys[a]) < Rank(keys[a + 1])
SortKeys(S) == LET idx == {Rank(k) : k \in S}
                   RECURSIVE Go(_, _)
                   Go(n, acc) == IF n > Len(AllOrder) THEN acc
                                 ELSE Go(n + 1, IF n \in idx THEN Append(acc, AllOrder[n]) ELSE acc)
               IN Go(1, <<>>)

Fields == {"comment", "source", "private", "announce", "url-list", "httpseeds"}
InfoFields == {"comment", "source", "private"}
\* request: field -> "u" (unnamed) | "c" (clear) | "s1" (set, one value) | "s2" (set, list of two)
\*                   | "k" (set to the - first - value the field holds already: an edit that "changes nothing"
\*                          for a text field, and one that drops every further value of a list-valued field)
ReqVals(f) == IF f = "private" THEN {"u", "c", "s1"}
              ELSE IF f \in {"comment", "source"} THEN {"u", "c", "s1", "k"}
              ELSE {"u", "c", "s1", "s2", "k"}
Requests == {r \in [Fields -> {"u", "c", "s1", "s2", "k"}] : \A f \in Fields : r[f] \in ReqVals(f)}
\* the command line cannot clear list-valued fields or the private flag
CliOK(r) == r["private"] # "c" /\ \A f \in {"announce", "url-list", "httpseeds"} : r[f] # "c"

(* ---- reference semantics (EditSem) ------------------------------------------ *)
\* vals: field -> Absent | <<step, form>>  (which edit wrote it, in which form; 0 = creation)
Absent == <<-1, "absent">>
ApplyEdit(vals, r, step) ==
    [f \in Fields |-> IF r[f] = "u" THEN vals[f]
                      ELSE IF r[f] = "c" THEN Absent
                      ELSE IF r[f] = "k" THEN <<vals[f][1], "s1">>      \* the first value written back then, alone
                      ELSE <<step, r[f]>>]
InfoTouched(r) == \E f \in InfoFields : r[f] # "u"

(* ---- implementation-shaped part --------------------------------------------- *)
VARIABLES version, top, info, layers, vals, nedits, hist, lastreq
vars == <<version, top, info, layers, vals, nedits, hist, lastreq>>
\* history / observation variables are hidden from the state fingerprint
View == <<version, top, info, layers, vals, nedits>>
Named(r) == Cardinality({f \in Fields : r[f] # "u"})
CreateSets == IF AllCreates THEN SUBSET Fields
              ELSE {S \in SUBSET Fields : Cardinality(S) <= 1 \/ S = Fields}

VersionKeys(v) == CASE v = 1 -> {"pieces"}
                    [] v = 2 -> {"file tree", "meta version"}
                    [] v = 3 -> {"file tree", "meta version", "pieces"}
Perms(n) == {p \in [1 .. n -> 1 .. n] : \A a, b \in 1 .. n : a # b => p[a] # p[b]}

Create(v, present, shape, lp) ==
    /\ version = 0
    /\ version' = v
    /\ top' = SortKeys({"created by", "creation date", "info"}
                       \cup (IF "announce" \in present THEN {"announce", "announce-list"} ELSE {})
                       \cup (IF "url-list" \in present THEN {"url-list"} ELSE {})
                       \cup (IF "httpseeds" \in present THEN {"httpseeds"} ELSE {})
                       \cup (IF v >= 2 THEN {"piece layers"} ELSE {}))
    /\ info' = SortKeys({"name", "piece length"} \cup VersionKeys(v)
                        \cup (IF shape = "single" THEN {"length"} ELSE IF v # 2 THEN {"files"} ELSE {})
                        \cup (present \cap InfoFields))
    /\ layers' = IF v = 1 THEN <<>>
                 ELSE IF Variant = "code" THEN lp                   \* traversal order
                 ELSE [a \in DOMAIN lp |-> a]                        \* sorted at write time
    /\ vals' = [f \in Fields |-> IF f \in present THEN <<0, "s1">> ELSE Absent]
    /\ nedits' = 0
    /\ hist' = <<[op |-> "create", version |-> v, present |-> present, shape |-> shape]>>
    /\ lastreq' = [f \in Fields |-> "u"]

\* what the tool believes was named (the CLI quirk lives here)
Effective(entry, r) ==
    IF entry = "cli" /\ Variant = "code" /\ r["private"] = "u"
    THEN [r EXCEPT !["private"] = "s1"]          \* store_true default False is "not None"
    ELSE r

Remove(seq, S) == SelectSeq(seq, LAMBDA k : k \notin S)
AddKeys(seq, ks) ==   \* assignments in program order; a new key goes to the end of the dict
    LET RECURSIVE Go(_, _)
        Go(s, rest) == IF rest = <<>> THEN s
                       ELSE Go(IF Head(rest) \in SeqToSet(s) THEN s ELSE Append(s, Head(rest)), Tail(rest))
    IN Go(seq, ks)
Finish(seq) == IF Variant = "code" THEN seq ELSE SortKeys(SeqToSet(seq))

Edit(entry, r) ==
    /\ version # 0 /\ nedits < MaxEdits
    /\ entry = "cli" => CliOK(r)
    /\ \A f \in Fields : r[f] = "k" => vals[f] # Absent          \* "the value it holds" needs one
    /\ LET e == Effective(entry, r)
           cleared == {f \in Fields : e[f] = "c"}
           setf == {f \in Fields : e[f] \in {"s1", "s2", "k"}}
           \* filter_empty: `if key in meta: del meta[key] elif key in info: del info[key]`
           top1 == Remove(top, cleared)
           info1 == Remove(info, {f \in cleared : f \notin SeqToSet(top)})
           infoadd == SelectSeq(<<"comment", "source", "private">>, LAMBDA k : k \in setf)
           topadd == (IF "announce" \in setf THEN <<"announce", "announce-list">> ELSE <<>>)
                     \o (IF "url-list" \in setf THEN <<"url-list">> ELSE <<>>)
                     \o (IF "httpseeds" \in setf THEN <<"httpseeds">> ELSE <<>>)
       IN /\ top' = Finish(AddKeys(top1, topadd))
          /\ info' = Finish(AddKeys(info1, infoadd))
          /\ layers' = IF Variant = "code" THEN layers ELSE [a \in DOMAIN layers |-> a]
          /\ vals' = ApplyEdit(vals, e, nedits + 1)
          /\ hist' = Append(hist, [op |-> "edit", entry |-> entry, req |-> r])
          /\ lastreq' = r
    /\ nedits' = nedits + 1
    /\ UNCHANGED version

\* (a constant-level definition: TLC evaluates it once, not once per state)
BoundedRequests == {r \in Requests : Named(r) <= MaxNamed}
Init == /\ version = 0 /\ top = <<>> /\ info = <<>> /\ layers = <<>> /\ nedits = 0 /\ hist = <<>>
        /\ vals = [f \in Fields |-> Absent] /\ lastreq = [f \in Fields |-> "u"]
Next == \/ \E v \in 1 .. 3, present \in CreateSets, shape \in {"single", "dir"} :
            \E lp \in Perms(IF v = 1 THEN 0 ELSE MaxLayers) : Create(v, present, shape, lp)
        \/ \E entry \in Entries, r \in BoundedRequests : Edit(entry, r)
Spec == Init /\ [][Next]_vars

(* ---- properties ---------------------------------------------------------------- *)
\* C06: every written metafile is canonical at the levels the tool writes ...
Canonical == version # 0 =>
                /\ Ascending(top) /\ Ascending(info)
                /\ \A a \in 1 .. Len(layers) - 1 : layers[a] < layers[a + 1]
\* ... and has the structure its version requires
Structure == version # 0 =>
                /\ {"info"} \subseteq SeqToSet(top)
                /\ {"name", "piece length"} \cup VersionKeys(version) \subseteq SeqToSet(info)
                /\ ("length" \in SeqToSet(info)) # ("files" \in SeqToSet(info) \/ (version = 2 /\ "length" \notin SeqToSet(info)))
                /\ (version >= 2) = ("piece layers" \in SeqToSet(top))
\* C07: an edit changes exactly the named fields (refinement of ApplyEdit)
EditRefines == [][(nedits' = nedits + 1 /\ version # 0) => vals' = ApplyEdit(vals, lastreq', nedits')]_vars
\* C07: key presence follows the values
PresenceOK == version # 0 =>
                 \A f \in Fields : (vals[f] # Absent) = (f \in SeqToSet(top) \cup SeqToSet(info))
\* emission of behaviours for replay (used with -simulate): print the history at full depth
EmitDepth == MaxEdits
Emit == (version # 0 /\ nedits = EmitDepth) => PrintT(<<"HIST", hist>>)
=============================================================================
