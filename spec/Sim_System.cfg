SPECIFICATION Spec
CONSTANTS
  Variant = "fixed"
  MaxOps = 10
  MaxSize = 3
INVARIANT Emit
CHECK_DEADLOCK FALSE
