SPECIFICATION Spec
CONSTANTS
  Variant = "fixed"
  MaxOps = 10
  MaxSize = 2
INVARIANT Emit
CHECK_DEADLOCK FALSE
