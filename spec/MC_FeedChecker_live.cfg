SPECIFICATION FairSpec
CONSTANTS
  MaxFiles = 3
  MaxSize = 3
  PieceLens = {2}
  Variant = "fixed"
  WithPads = FALSE
CHECK_DEADLOCK FALSE
PROPERTY Terminates
