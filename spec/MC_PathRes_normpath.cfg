SPECIFICATION Spec
CONSTANT Variant = "normpath"
INVARIANT Safe
CHECK_DEADLOCK FALSE
