SPECIFICATION Spec
CONSTANTS
  Variant = "untrimmed"
  MaxGroups = 3
INVARIANT ArgvRefines
CHECK_DEADLOCK FALSE
