SPECIFICATION Spec
CONSTANT Variant = "bakrollback"
INVARIANT NeverLost
INVARIANT ErrorLeavesComplete
INVARIANT DoneIsNew
CHECK_DEADLOCK FALSE
