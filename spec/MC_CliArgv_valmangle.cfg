SPECIFICATION Spec
CONSTANTS
  Variant = "valmangle"
  MaxGroups = 3
INVARIANT ArgvRefines
CHECK_DEADLOCK FALSE
