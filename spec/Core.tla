------------------------------- MODULE Core -------------------------------
(* Arithmetic, sequence and byte-string helpers shared by every module of the  *)
(* torrentfile specification.  Constant-level only.                            *)
EXTENDS Naturals, Integers, Sequences, FiniteSets

Min(a, b) == IF a <= b THEN a ELSE b
Max(a, b) == IF a >= b THEN a ELSE b
CeilDiv(a, b) == (a + b - 1) \div b

RECURSIVE CeilLog2(_)
CeilLog2(n) == IF n <= 1 THEN 0 ELSE 1 + CeilLog2((n + 1) \div 2)

RECURSIVE Pow2(_)
Pow2(n) == IF n = 0 THEN 1 ELSE 2 * Pow2(n - 1)

IsPow2(n) == n >= 1 /\ Pow2(CeilLog2(n)) = n
NextPow2(n) == Pow2(CeilLog2(n))            \* utils.next_power_2 for n >= 1

PadGap(size, P) == (P - (size % P)) % P

RECURSIVE SumSeq(_)
SumSeq(s) == IF s = <<>> THEN 0 ELSE Head(s) + SumSeq(Tail(s))

RECURSIVE SumTo(_, _)
SumTo(s, n) == IF n = 0 THEN 0 ELSE s[n] + SumTo(s, n - 1)   \* s[1] + ... + s[n]

SeqToSet(s) == {s[i] : i \in DOMAIN s}
NoDup(s) == \A i, j \in DOMAIN s : i # j => s[i] # s[j]
IsPermutation(s, t) == /\ Len(s) = Len(t)
                       /\ \A x \in SeqToSet(s) \cup SeqToSet(t) :
                            Cardinality({i \in DOMAIN s : s[i] = x})
                              = Cardinality({i \in DOMAIN t : t[i] = x})

RECURSIVE FlattenSeq(_)
FlattenSeq(ss) == IF ss = <<>> THEN <<>> ELSE Head(ss) \o FlattenSeq(Tail(ss))

(* raw-byte lexicographic order on Seq(0..255): the order canonical bencoding   *)
(* requires for dictionary keys                                                *)
RECURSIVE LexLess(_, _)
LexLess(a, b) == IF a = <<>> THEN b # <<>>
                 ELSE IF b = <<>> THEN FALSE
                 ELSE IF Head(a) # Head(b) THEN Head(a) < Head(b)
                 ELSE LexLess(Tail(a), Tail(b))
StrictlyAscending(keys) == \A i \in 1 .. Len(keys) - 1 : LexLess(keys[i], keys[i + 1])

(* floor(10^6 * num / den) by six steps of long division: no intermediate      *)
(* product exceeds 10 * den, so it is safe with TLC's 32-bit integers as long  *)
(* as den < 2^27.                                                              *)
RECURSIVE PpmDigits(_, _, _, _)
PpmDigits(rem, den, acc, k) ==
    IF k = 0 THEN acc
    ELSE LET r10 == rem * 10
         IN PpmDigits(r10 % den, den, acc * 10 + (r10 \div den), k - 1)
Ppm(num, den) == IF num >= den THEN 1000000 * (num \div den) + PpmDigits(num % den, den, 0, 6)
                 ELSE PpmDigits(num, den, 0, 6)
=============================================================================
