SPECIFICATION Spec
CONSTANTS
  Variant = "code"
  MaxGroups = 4
INVARIANT CliRefines
INVARIANT ConfigRefines
INVARIANT KeywordRefines
CHECK_DEADLOCK FALSE
