----------------------------- MODULE HasherV1 -----------------------------
(* Implementation-shaped model of torrentfile.hasher.Hasher (BEP 3 piece       *)
(* hasher, optionally piece-aligned) and of the file-list construction in      *)
(* TorrentFile.assemble.  One Step per loop iteration of the code:             *)
(*   pc = "next"    : one iteration of `while True` in Hasher.__next__         *)
(*   pc = "partial" : one iteration of the `while` in Hasher._handle_partial   *)
(* Piece contents are tracked as <<"S", start, len, z>>: len real bytes        *)
(* starting at offset `start` of the plain concatenation of the files,         *)
(* followed by z zero bytes.  Non-contiguous content is <<"?",0,0,0>>.         *)
(* Deterministic once (sizes, P, align) are fixed, so the closure Run(..) is   *)
(* an ordinary operator reused by AssembleV1 below and by the trace specs.     *)
EXTENDS Core, BEP3
CONSTANTS MaxFiles, MaxSize, PieceLens, Variant, Aligns

Unknown == <<"?", 0, 0, 0>>
Start(sizes, f) == SumTo(sizes, f - 1)

InitSt(sizes, P, align) ==
    [pc |-> "next", sizes |-> sizes, P |-> P, align |-> align, idx |-> 1, off |-> 0,
     arr |-> <<0, 0, TRUE>>, out |-> <<>>]

Emit(st, arr, z) == Append(st.out, IF arr[3] THEN <<"S", arr[1], arr[2], z>> ELSE Unknown)
Extend(arr, g, n) == IF n = 0 THEN arr
                     ELSE IF arr[2] = 0 THEN <<g, n, TRUE>>
                     ELSE <<arr[1], arr[2] + n, arr[3] /\ arr[1] + arr[2] = g>>

Step(st) ==
  LET n == Len(st.sizes)
      fs == st.sizes[st.idx]
      avail == fs - st.off
      g == Start(st.sizes, st.idx) + st.off
  IN
  IF st.pc = "next" THEN
      IF avail = 0 THEN                             \* size == 0: next_file()
          IF st.idx < n THEN (IF Variant = "m_spin" THEN st          \* mutant: an exhausted file is never left
                              ELSE [st EXCEPT !.idx = st.idx + 1, !.off = 0])
          ELSE [st EXCEPT !.pc = "done"]
      ELSE IF avail < st.P THEN                     \* size < piece_length: _handle_partial
          LET arr == <<g, avail, TRUE>> IN
          IF st.align
          THEN [st EXCEPT !.off = fs, !.out = Emit(st, arr, st.P - avail)]
          ELSE [st EXCEPT !.off = fs, !.arr = arr, !.pc = "partial"]
      ELSE [st EXCEPT !.off = st.off + st.P, !.out = Emit(st, <<g, st.P, TRUE>>, 0)]
  ELSE IF st.pc = "partial" THEN
      IF st.idx < n THEN                            \* next_file() is True
          LET i2 == st.idx + 1
              target == st.P - st.arr[2]
              size == Min(target, st.sizes[i2])
              base == IF Variant = "m_nocarry" THEN <<0, 0, TRUE>> ELSE st.arr
              arr2 == Extend(base, Start(st.sizes, i2), size)
          IN IF size = target
             THEN [st EXCEPT !.idx = i2, !.off = size, !.out = Emit(st, arr2, 0), !.pc = "next"]
             ELSE [st EXCEPT !.idx = i2, !.off = size, !.arr = arr2]
      ELSE                                          \* no next file: hash what we have
          IF Variant = "m_droplast" THEN [st EXCEPT !.pc = "next"]
          ELSE [st EXCEPT !.out = Emit(st, st.arr, 0), !.pc = "next"]
  ELSE st

RECURSIVE Run(_)
Run(st) == IF st.pc = "done" THEN st ELSE Run(Step(st))
HasherOut(sizes, P, align) == Run(InitSt(sizes, P, align)).out

(* ---- references ---------------------------------------------------------- *)
Total(sizes) == SumSeq(sizes)
RefPlain(sizes, P) == [k \in 1 .. CeilDiv(Total(sizes), P) |->
                         <<"S", (k - 1) * P, Min(P, Total(sizes) - (k - 1) * P), 0>>]
(* aligned stream: file-local pieces; a short piece is zero-extended when a    *)
(* pad entry follows the file (always, except optionally after the last file)  *)
RECURSIVE RefAlignedFrom(_, _, _, _)
RefAlignedFrom(sizes, P, f, trailing) ==
    IF f > Len(sizes) THEN <<>>
    ELSE LET sz == sizes[f]
             padded == f < Len(sizes) \/ trailing
             pcs == [j \in 1 .. CeilDiv(sz, P) |->
                       LET len == Min(P, sz - (j - 1) * P)
                       IN <<"S", Start(sizes, f) + (j - 1) * P, len,
                            IF padded THEN P - len ELSE 0>>]
         IN pcs \o RefAlignedFrom(sizes, P, f + 1, trailing)
RefAligned(sizes, P, trailing) == RefAlignedFrom(sizes, P, 1, trailing)

(* ---- TorrentFile.assemble: the file list with padding entries -------------- *)
(* entry = <<"f", size>> payload file | <<"p", n>> padding entry              *)
PadLen(size, P) ==
    IF Variant = "code"      \* torrent.py:482-485 as found
    THEN (IF size < P THEN P - size ELSE size % P)
    ELSE PadGap(size, P)     \* "fixed"
RECURSIVE Entries(_, _, _)
Entries(sizes, P, align) ==
    IF sizes = <<>> THEN <<>>
    ELSE <<<<"f", Head(sizes)>>>>
         \o (IF align /\ PadLen(Head(sizes), P) > 0 THEN <<<<"p", PadLen(Head(sizes), P)>>>> ELSE <<>>)
         \o Entries(Tail(sizes), P, align)

(* declared stream of an entry list: piece k as a descriptor ------------------ *)
EntryLens(E) == [i \in DOMAIN E |-> E[i][2]]
DeclTotal(E) == SumSeq(EntryLens(E))
RECURSIVE Segs(_, _, _, _, _)
\* tagged segments of the declared stream inside [a, b): <<"r", plainstart, n>> / <<"z", 0, n>>
Segs(E, a, b, pos, plain) ==
    IF E = <<>> \/ pos >= b THEN <<>>
    ELSE LET e == Head(E)
             lo == Max(a, pos)
             hi == Min(b, pos + e[2])
             rest == Segs(Tail(E), a, b, pos + e[2], IF e[1] = "f" THEN plain + e[2] ELSE plain)
         IN IF hi <= lo THEN rest
            ELSE IF e[1] = "f" THEN <<<<"r", plain + (lo - pos), hi - lo>>>> \o rest
            ELSE <<<<"z", 0, hi - lo>>>> \o rest
RECURSIVE Fold(_, _)
\* fold segments into <<"S", start, len, z>> when they read "real bytes then zero bytes"
Fold(segs, acc) ==
    IF segs = <<>> THEN acc
    ELSE LET s == Head(segs) IN
         IF acc = Unknown THEN Unknown
         ELSE IF s[1] = "r"
              THEN IF acc[4] > 0 THEN Unknown                       \* real data after zeros
                   ELSE IF acc[3] = 0 THEN Fold(Tail(segs), <<"S", s[2], s[3], 0>>)
                   ELSE IF acc[2] + acc[3] = s[2]
                        THEN Fold(Tail(segs), <<"S", acc[2], acc[3] + s[3], 0>>)
                        ELSE Unknown
              ELSE Fold(Tail(segs), <<"S", acc[2], acc[3], acc[4] + s[3]>>)
DeclPiece(E, P, k) == Fold(Segs(E, (k - 1) * P, Min(k * P, DeclTotal(E)), 0, 0), <<"S", 0, 0, 0>>)
DeclPieces(E, P) == [k \in 1 .. CeilDiv(DeclTotal(E), P) |-> DeclPiece(E, P, k)]
\* a piece with no real bytes is identified by its zero count only
Norm(d) == IF d[1] = "S" /\ d[3] = 0 THEN <<"S", 0, 0, d[4]>> ELSE d

RECURSIVE EntryStarts(_, _)
EntryStarts(E, pos) == IF E = <<>> THEN <<>> ELSE <<pos>> \o EntryStarts(Tail(E), pos + Head(E)[2])

(* ---- model checking ------------------------------------------------------- *)
VARIABLE st
SizeVecs == UNION {[1 .. n -> 0 .. MaxSize] : n \in 1 .. MaxFiles}
Init == \E sizes \in SizeVecs, P \in PieceLens, al \in Aligns :
            /\ Total(sizes) > 0
            /\ st = InitSt(sizes, P, al)
Next == st.pc # "done" /\ st' = Step(st)
Spec == Init /\ [][Next]_st
\* liveness: every run of the iterator ends (weak fairness = the caller keeps calling next())
FairSpec == Spec /\ WF_st(Next)

TypeOK == st.pc \in {"next", "partial", "done"} /\ st.idx \in 1 .. Len(st.sizes)
\* C01: the piece string is the BEP 3 hashing of the files in list order
PlainCorrect == (st.pc = "done" /\ ~st.align) => st.out = RefPlain(st.sizes, st.P)
\* C15 (hasher half): aligned hashing = file-local pieces, short ones zero-extended
AlignedCorrect == (st.pc = "done" /\ st.align) =>
                      st.out = RefAligned(st.sizes, st.P, TRUE)
\* C15 (assemble half): the declared list accounts for exactly the pieces hashed
AssembleCorrect ==
    (st.pc = "done" /\ st.align /\ Len(st.sizes) > 1) =>
        LET E == Entries(st.sizes, st.P, TRUE)
            starts == EntryStarts(E, 0)
        IN /\ \A i \in DOMAIN E : E[i][1] = "f" => starts[i] % st.P = 0
           /\ \A i \in DOMAIN E : E[i][1] = "p" =>
                  i > 1 /\ E[i - 1][1] = "f" /\ E[i][2] = PadGap(E[i - 1][2], st.P)
           /\ [k \in DOMAIN st.out |-> Norm(st.out[k])]
                = [k \in DOMAIN DeclPieces(E, st.P) |-> Norm(DeclPieces(E, st.P)[k])]
\* the run is consistent with running the closure (binds Run to Next)
ClosureAgrees == st.pc = "done" => HasherOut(st.sizes, st.P, st.align) = st.out
Terminates == <>(st.pc = "done")
=============================================================================
