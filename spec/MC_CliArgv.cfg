SPECIFICATION Spec
CONSTANTS
  Variant = "fixed"
  MaxGroups = 3
INVARIANT ArgvRefines
INVARIANT ClosureAgrees
CHECK_DEADLOCK FALSE
