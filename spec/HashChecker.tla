----------------------------- MODULE HashChecker -----------------------------
(* Implementation-shaped model of recheck.HashChecker (v2 / hybrid recheck):   *)
(* __next__ / next_file / process_current / advance, the nested Padder, and    *)
(* FileHasher run on a file that may be shorter than recorded or absent.       *)
(* A FileHasher step over the on-disk file yields the recorded hash of piece j *)
(* iff the described bytes of that piece are all present and unflipped (the    *)
(* hash computation itself is HasherV2.tla's business); Padder hashes never    *)
(* equal a recorded hash (described bytes are non-zero).                       *)
(* Variant "code"  : __next__ retries next_file() once (pinned commit)         *)
(* Variant "fixed" : __next__ moves on until a file yields or none is left     *)
EXTENDS Core, RecheckRef
CONSTANTS MaxFiles, MaxSize, PieceLens, Variant

InitSt(recs, disk, P) ==
    [pc |-> "next", recs |-> recs, disk |-> disk, P |-> P, index |-> 0, started |-> FALSE,
     hasher |-> "none", hpos |-> 0, plen |-> 0, length |-> 0, count |-> 0, npieces |-> 0,
     out |-> <<>>, retried |-> FALSE]

\* next_file(): returns <<state, found>>
NextFile(st) ==
    LET idx == st.index + 1 IN
    IF ~st.started \/ idx <= Len(st.recs)
    THEN <<[st EXCEPT !.index = idx, !.started = TRUE, !.length = st.recs[idx], !.count = 0,
                      !.npieces = CeilDiv(st.recs[idx], st.P),
                      !.hasher = IF st.disk[idx].present THEN "file" ELSE "padder",
                      !.hpos = 0, !.plen = st.recs[idx]], TRUE>>
    ELSE <<[st EXCEPT !.index = idx], FALSE>>

\* advance(): <<state, size>>
Advance(st) == LET size == Min(st.P, st.length)
               IN <<[st EXCEPT !.count = st.count + 1, !.length = st.length - size], size>>
EmitV(st, ok, size) == [st EXCEPT !.out = Append(st.out, <<ok /\ st.count <= st.npieces, size>>)]

\* process_current(): <<state, yielded?>> (yielded = FALSE means StopIteration)
Process(st) ==
    LET d == st.disk[st.index]
        rec == st.recs[st.index]
        P == st.P
    IN
    IF st.hasher = "file" /\ st.hpos * P < d.len THEN         \* FileHasher yields a layer hash
        LET j == st.hpos
            ok == RangeOK("f", d, j * P, Min((j + 1) * P, rec)) /\ j < CeilDiv(rec, P)
            a == Advance(st)
            s1 == [a[1] EXCEPT !.hpos = j + 1]
        IN <<EmitV(s1, ok, a[2]), TRUE>>
    ELSE IF st.hasher = "file" THEN                            \* FileHasher raised StopIteration
        IF st.length > 0 /\ st.count < st.npieces
        THEN LET s0 == [st EXCEPT !.hasher = "padder", !.plen = st.length]   \* Padder(self.length)
                 a == Advance(s0)
                 psz == Min(P, s0.plen)
             IN <<EmitV([a[1] EXCEPT !.plen = s0.plen - psz], FALSE, a[2]), TRUE>>
        ELSE <<st, FALSE>>
    ELSE \* padder
        IF st.plen > 0
        THEN LET psz == Min(P, st.plen)
                 a == Advance(st)
             IN <<EmitV([a[1] EXCEPT !.plen = st.plen - psz], FALSE, a[2]), TRUE>>
        ELSE IF st.length > 0 /\ st.count < st.npieces
             THEN LET s0 == [st EXCEPT !.plen = st.length]
                      a == Advance(s0)
                      psz == Min(P, s0.plen)
                  IN <<EmitV([a[1] EXCEPT !.plen = s0.plen - psz], FALSE, a[2]), TRUE>>
             ELSE <<st, FALSE>>

\* one call of HashChecker.__next__ = one Step (several in the fixed variant when files are skipped)
Step(st) ==
  IF st.pc = "next" THEN
      LET s0 == IF ~st.started THEN NextFile(st)[1] ELSE st
          p == Process(s0)
      IN IF p[2] THEN p[1]
         ELSE LET nf == NextFile(p[1]) IN
              IF ~nf[2] THEN [nf[1] EXCEPT !.pc = "done"]
              ELSE IF Variant = "code"
                   THEN LET p2 == Process(nf[1]) IN
                        IF p2[2] THEN p2[1] ELSE [p2[1] EXCEPT !.pc = "done"]   \* StopIteration escapes
                   ELSE [nf[1] EXCEPT !.pc = "next"]                           \* loop again
  ELSE st

RECURSIVE Run(_, _)
Run(s, fuel) == IF s.pc = "done" \/ fuel = 0 THEN s ELSE Run(Step(s), fuel - 1)

(* ---- model checking ------------------------------------------------------- *)
VARIABLE st
DiskStates(rec) ==
    {[present |-> FALSE, len |-> 0, flips |-> {}]}
    \cup {[present |-> TRUE, len |-> l, flips |-> {}] : l \in 0 .. rec}
    \cup {[present |-> TRUE, len |-> rec, flips |-> {o}] : o \in 0 .. (rec - 1)}
Init == \E n \in 1 .. MaxFiles, P \in PieceLens :
        \E recs \in [1 .. n -> 0 .. MaxSize] :
        \E disk \in [1 .. n -> UNION {DiskStates(r) : r \in 0 .. MaxSize}] :
            /\ Total(recs) > 0
            /\ \A f \in 1 .. n : disk[f] \in DiskStates(recs[f])
            /\ st = InitSt(recs, disk, P)
Next == st.pc # "done" /\ st' = Step(st)
Spec == Init /\ [][Next]_st
\* liveness: the iteration ends for every input (weak fairness = the caller keeps calling next())
FairSpec == Spec /\ WF_st(Next)
Terminates == <>(st.pc = "done")

Kinds(s) == [f \in DOMAIN s.recs |-> "f"]
StreamCorrect == st.pc = "done" => st.out = V2Verdicts(st.recs, st.disk, st.P)
TotalCorrect == st.pc = "done" => ConsumedBytes(st.out) = Total(st.recs)
Hundred == st.pc = "done" =>
              (SharePpm(st.out) = 100000000 <=> Intact(st.recs, Kinds(st), st.disk))
=============================================================================
