SPECIFICATION Spec
CONSTANTS
  Variant = "cwdleak"
  MaxOps = 4
  MaxSize = 2
VIEW View
INVARIANT ResultFresh
CHECK_DEADLOCK FALSE
