SPECIFICATION Spec
CONSTANTS
  Variant = "fixed"
  MaxExp = 29
INVARIANT Refines
INVARIANT AutoOK
INVARIANT AutoMonotone
CHECK_DEADLOCK FALSE
