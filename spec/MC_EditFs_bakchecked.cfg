SPECIFICATION Spec
CONSTANT Variant = "bakchecked"
INVARIANT NeverLost
INVARIANT ErrorLeavesComplete
INVARIANT DoneIsNew
CHECK_DEADLOCK FALSE
