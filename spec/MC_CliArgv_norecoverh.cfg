SPECIFICATION Spec
CONSTANTS
  Variant = "norecoverh"
  MaxGroups = 3
INVARIANT ArgvRefines
CHECK_DEADLOCK FALSE
