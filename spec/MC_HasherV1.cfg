SPECIFICATION Spec
CONSTANTS
  MaxFiles = 3
  MaxSize = 9
  PieceLens = {2, 4}
  Aligns = {FALSE, TRUE}
  Variant = "fixed"
INVARIANT TypeOK
INVARIANT PlainCorrect
INVARIANT AlignedCorrect
INVARIANT AssembleCorrect
INVARIANT ClosureAgrees
CHECK_DEADLOCK FALSE
