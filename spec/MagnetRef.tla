----------------------------- MODULE MagnetRef -----------------------------
(* C11, model-checking part: the implementation-shaped magnet() of commands.py *)
(* refines the reference of MagnetOps for every symbolic metafile and request. *)
(* Variant "code": a url-list given as a bare string is iterated per character *)
(* (pinned commit); "fixed": it is one URL.                                    *)
EXTENDS Core, MagnetOps

(* ---- implementation-shaped --------------------------------------------------------- *)
CONSTANT Variant
Impl(m, req) ==
    LET v1 == ~m.v2 \/ (req \in {1, 3, 0} /\ m.v1)
        xt == (IF v1 THEN <<"btih">> ELSE <<>>) \o (IF m.v2 /\ req # 1 THEN <<"btmh">> ELSE <<>>)
        tr == IF m.tiers[1] = "+" THEN Flatten(m.tiers)
              ELSE IF m.announce # "none" THEN <<m.announce>> ELSE <<>>
        ws == IF m.seeds[1] = "-" THEN <<>>
              ELSE IF m.seeds[1] = "list" THEN Tail(m.seeds)
              ELSE IF Variant = "code"
                   THEN [k \in 1 .. (Len(m.seeds) - 1) |-> <<m.seeds[k + 1]>>]   \* one ws per character
                   ELSE <<Tail(m.seeds)>>
    IN [xt |-> xt, dn |-> <<m.name>>, tr |-> tr, ws |-> ws]

(* ---- model checking ------------------------------------------------------------------ *)
VARIABLES m, req
Urls == {"u1", "u2"}
Metas == [v1 : BOOLEAN, v2 : BOOLEAN, name : {"n"}, announce : {"none", "u1"},
          tiers : {<<"-">>, <<"+", <<"u1">>>>, <<"+", <<"u2", "u1">>, <<"u1">>>>, <<"+", <<"u2">>>>},
          seeds : {<<"-">>, <<"list", <<"u1">>>>, <<"list", <<"u2">>, <<"u1">>>>, <<"str", "a", "b">>, <<"str", "a">>}]
Init == m \in Metas /\ (m.v1 \/ m.v2) /\ req \in 0 .. 3 /\ CanSatisfy(m, req)
Next == UNCHANGED <<m, req>>
Spec == Init /\ [][Next]_<<m, req>>
Refines == Impl(m, req) = Ref(m, req)
NeverEmpty == Xt(m, req) # <<>>
=============================================================================
