SPECIFICATION Spec
CONSTANTS
  Variant = "statcache"
  MaxOps = 5
  MaxSize = 2
VIEW View
INVARIANT ResultFresh
CHECK_DEADLOCK FALSE
