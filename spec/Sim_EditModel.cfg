SPECIFICATION Spec
CONSTANTS
  Variant = "fixed"
  MaxEdits = 4
  MaxLayers = 2
  Entries = {"lib", "cli"}
  MaxNamed = 6
  AllCreates = TRUE
INVARIANT Emit
CHECK_DEADLOCK FALSE
