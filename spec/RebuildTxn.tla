----------------------------- MODULE RebuildTxn -----------------------------
(* C19 at the level of ONE rebuild as a sequence of steps (PathRes.tla decides  *)
(* where a single entry lands; this module decides what the run as a whole may  *)
(* touch when something goes wrong half way).  The metafile lists entries of    *)
(* three kinds, processed in the order listed:                                  *)
(*   "plain"   an ordinary name: validated, copied into the destination         *)
(*   "escape"  a name that resolves outside the destination: refused - but the  *)
(*             v1 bookkeeping (`copied`, the raw names of every matched piece)  *)
(*             records it all the same                                          *)
(*   "blocked" an ordinary name whose copy raises (a file sits where a          *)
(*             directory is wanted, a name too long for the filesystem)         *)
(* Somebody else's file sits at the place every "escape" entry points to.       *)
(*   Variant "fixed"    : the code - the error propagates, nothing is removed   *)
(*   Variant "rollback" : a correct clean-up - what this run copied (validated  *)
(*                        names only) is removed again                          *)
(*   Variant "discard"  : seed R22-C19 - the clean-up removes every RECORDED    *)
(*                        name, joined to the destination without validation    *)
(*   Variant "nocheck"  : no validation at all (the pinned commit)              *)
EXTENDS Core, TLC, FiniteSetsExt
CONSTANTS Variant, MaxEntries

Kinds == {"plain", "escape", "blocked"}
VARIABLES entries,    \* the metafile: sequence of kinds
          pc,         \* next entry
          status,     \* "run" | "rollback" | "failed" | "done"
          inside,     \* indices whose file now lies in the destination
          victims,    \* indices of "escape" entries whose target (somebody else's file) is still untouched
          recorded,   \* the tool's bookkeeping of "copied" names (indices)
          validated   \* names that passed the destination check and were copied by this run
vars == <<entries, pc, status, inside, victims, recorded, validated>>

Escapes(es) == {i \in DOMAIN es : es[i] = "escape"}
Init == /\ \E n \in 1 .. MaxEntries : entries \in [1 .. n -> Kinds]
        /\ pc = 1 /\ status = "run" /\ inside = {} /\ victims = Escapes(entries) /\ recorded = {} /\ validated = {}

StepEntry ==
    /\ status = "run" /\ pc <= Len(entries)
    /\ LET k == entries[pc] IN
       CASE k = "plain" ->
              /\ inside' = inside \cup {pc} /\ recorded' = recorded \cup {pc} /\ validated' = validated \cup {pc}
              /\ pc' = pc + 1 /\ UNCHANGED <<status, victims>>
         [] k = "escape" ->
              /\ recorded' = recorded \cup {pc}                       \* (the raw name of a matched piece)
              /\ victims' = (IF Variant = "nocheck" THEN victims \ {pc} ELSE victims)     \* written through
              /\ pc' = pc + 1 /\ UNCHANGED <<status, inside, validated>>
         [] k = "blocked" ->
              /\ status' = (IF Variant \in {"rollback", "discard"} THEN "rollback" ELSE "failed")
              /\ UNCHANGED <<pc, inside, victims, recorded, validated>>
    /\ UNCHANGED entries
Rollback ==
    /\ status = "rollback"
    /\ LET gone == IF Variant = "discard" THEN recorded ELSE validated IN
       /\ inside' = inside \ gone
       /\ victims' = victims \ gone            \* a recorded "escape" name joined to the destination IS its victim
    /\ status' = "failed"
    /\ UNCHANGED <<entries, pc, recorded, validated>>
Finish == /\ status = "run" /\ pc > Len(entries) /\ status' = "done"
          /\ UNCHANGED <<entries, pc, inside, victims, recorded, validated>>
Next == StepEntry \/ Rollback \/ Finish
Spec == Init /\ [][Next]_vars
FairSpec == Spec /\ WF_vars(Next)

\* C19: whatever the metafile lists and wherever the run stops, nothing outside the destination is touched
OutsideUntouched == victims = Escapes(entries)
\* what the code ("fixed") leaves in the destination: the plain entries listed before the first blocked one
FirstBlocked(es) == LET B == {i \in DOMAIN es : es[i] = "blocked"} IN
                    IF B = {} THEN Len(es) + 1 ELSE CHOOSE i \in B : \A j \in B : i <= j
FixedPlaced(es) == {i \in DOMAIN es : es[i] = "plain" /\ i < FirstBlocked(es)}
PlacedAsModelled == (Variant = "fixed" /\ status \in {"done", "failed"}) => inside = FixedPlaced(entries)
\* a clean-up worth the name leaves nothing of this run behind
RollbackClean == (Variant = "rollback" /\ status = "failed") => inside = {}
Terminates == <>(status \in {"done", "failed"})
\* the universe, for replay into the real rebuild
AtStart == pc = 1 /\ status = "run"
EmitTxn == pc = 1 /\ status = "run" => PrintT(<<"TXN", entries>>)
=============================================================================
