SPECIFICATION Spec
CONSTANT Variant = "probefirst"
INVARIANT FromRoot
INVARIANT FromParent
CHECK_DEADLOCK FALSE
