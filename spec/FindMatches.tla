----------------------------- MODULE FindMatches -----------------------------
(* Implementation-shaped model of the v1 rebuild matching: Metadata._match_v1, *)
(* PieceNode._find_matches (depth-first search over the candidates of the      *)
(* files a piece touches), utils.copypath's skip rule, and the `copied` list.  *)
(* Files have byte sizes in a scaled world; every file has an ordered list of  *)
(* same-named candidates of a class (RebuildRef); a candidate's bytes in a     *)
(* range verify according to its class.                                        *)
(* Variant "code"  : _find_matches returns after the first same-sized          *)
(*                   candidate whether or not it matched (pinned commit)       *)
(* Variant "fixed" : it goes on to the next candidate                          *)
(* Variant "nopad" : as fixed, but padding entries of piece-aligned metafiles  *)
(*                   are looked up like files (state before 4af3d68): a piece  *)
(*                   that contains padding can never verify                    *)
(* A padding entry (BEP 47, written by --align) is a file whose candidate list *)
(* is <<"pad">>: it stands for zero bytes, is never searched, copied, counted. *)
(* AllowPartialFirst: whether a partially matching decoy may be enumerated     *)
(* before the intact copy.  With TRUE the model exhibits the KNOWN FINDING of  *)
(* C13: a file is placed as soon as ONE piece containing it verifies, later    *)
(* pieces inside an already copied file are skipped, and copypath never        *)
(* replaces a full-length file - so the partial decoy stays.                   *)
EXTENDS Core, RebuildRef, MapPiecesRef
CONSTANTS Variant, AllowPartialFirst, MaxFiles, MaxSize, P, Classes

RangeOK(cls, size, lo, len) ==
    len = 0 \/ CASE cls = "intact" -> TRUE
                 [] cls = "decoy_all" -> FALSE
                 [] cls = "decoy_some" -> lo + len <= size - 1
                 [] cls = "decoy_head" -> lo >= 1
                 [] OTHER -> FALSE

\* the piece map as the (repaired) _map_pieces builds it: zero-length files are attached to a piece
MP == INSTANCE MapPieces WITH Variant <- "fixed", PieceLens <- {}, st <- 0
PieceMap(sz) == LET m == MP!MapAll(sz, P) IN [k \in DOMAIN m |-> MP!Ranges(sz, m[k])]

IsPad(cands, f) == cands[f] = <<"pad">>
RECURSIVE Dfs(_, _, _, _)
\* _find_matches over slices[j..]: <<found, choices>> with choices = <<file, candidate index>>*
Dfs(sizes, cands, slices, j) ==
    IF j > Len(slices) THEN <<TRUE, <<>>>>
    ELSE IF IsPad(cands, slices[j][1])
    THEN (IF Variant = "fixed" THEN Dfs(sizes, cands, slices, j + 1)      \* zeros always verify, nothing is chosen
          ELSE <<FALSE, <<>>>>)                                            \* `filename not in filemap`
    ELSE LET f == slices[j][1]
             cs == cands[f]
             RECURSIVE Try(_)
             Try(k) == IF k > Len(cs) THEN <<FALSE, <<>>>>
                       ELSE IF cs[k] \notin SameSize THEN Try(k + 1)                 \* size != len(pathnode)
                       ELSE LET ok == RangeOK(cs[k], sizes[f], slices[j][2], slices[j][3])
                                rest == IF ok THEN Dfs(sizes, cands, slices, j + 1) ELSE <<FALSE, <<>>>>
                            IN IF ok /\ rest[1] THEN <<TRUE, <<<<f, k>>>> \o rest[2]>>
                               ELSE IF Variant = "code" THEN <<FALSE, <<>>>>        \* `return val` inside the loop
                               ELSE Try(k + 1)
         IN Try(1)

\* copypath: copy unless the destination exists and is at least as large as the source
Copy(dest, f, k, destsize, size) ==
    IF dest[f] = 0 \/ destsize[f] < size THEN [dest EXCEPT ![f] = k] ELSE dest

\* one iteration of `for piece_node in self.piece_nodes` of _match_v1, as a pure function:
\* <<dest, dsize, copied>> after looking at piece k
PieceStep(sz, cd, pm, k, d, ds, cp) ==
    LET sl == pm[k] IN
    IF Len(sl) = 1 /\ sl[1][1] \in cp THEN <<d, ds, cp>>
    ELSE LET r == Dfs(sz, cd, sl, 1) IN
         IF r[1]
         THEN LET RECURSIVE Place(_, _, _)
                  Place(d1, ds1, j) == IF j > Len(r[2]) THEN <<d1, ds1>>
                                       ELSE LET f == r[2][j][1] c == r[2][j][2]
                                                d2 == Copy(d1, f, c, ds1, sz[f])
                                            IN Place(d2, [ds1 EXCEPT ![f] = sz[f]], j + 1)
                  pl == Place(d, ds, 1)
              IN <<pl[1], pl[2], cp \cup {r[2][j][1] : j \in DOMAIN r[2]}>>
         ELSE <<d, ds, cp>>
RECURSIVE MatchFrom(_, _, _, _, _, _, _)
MatchFrom(sz, cd, pm, k, d, ds, cp) ==
    IF k > Len(pm) THEN d
    ELSE LET t == PieceStep(sz, cd, pm, k, d, ds, cp) IN MatchFrom(sz, cd, pm, k + 1, t[1], t[2], t[3])
\* the whole run on an empty destination: file -> index of the candidate placed (0 = none)
MatchAll(sz, cd) == MatchFrom(sz, cd, PieceMap(sz), 1, [f \in DOMAIN sz |-> 0], [f \in DOMAIN sz |-> 0], {})

(* ---- v2 / hybrid metafiles: Metadata._match_v2 --------------------------------------------- *)
\* per file: the first same-sized candidate whose merkle root equals the recorded one is copied (an
\* empty file has no root: the first same-sized, i.e. empty, candidate is taken); 0 = nothing placed
FirstV2(size, cs) == LET S == {k \in DOMAIN cs : cs[k] \in SameSize /\ (size = 0 \/ cs[k] = "intact")}
                     IN IF S = {} THEN 0 ELSE CHOOSE k \in S : \A j \in S : k <= j
MatchV2(sz, cd) == [f \in DOMAIN sz |-> FirstV2(sz[f], cd[f])]

VARIABLES sizes, cands, dest, dsize, copied, piece, pc
vars == <<sizes, cands, dest, dsize, copied, piece, pc>>
NP == CeilDiv(SumSeq(sizes), P)

CandLists == UNION {[1 .. n -> Classes \ {"pad"}] : n \in 1 .. 2} \cup (IF "pad" \in Classes THEN {<<"pad">>} ELSE {})
PartialBeforeIntact(cs) == \E a, b \in DOMAIN cs : a < b /\ cs[b] = "intact" /\ cs[a] \in {"decoy_some", "decoy_head"}
Init == \E n \in 1 .. MaxFiles : \E sz \in [1 .. n -> 0 .. MaxSize] : \E cd \in [1 .. n -> CandLists] :
          /\ SumSeq(sz) > 0
          /\ \A f \in 1 .. n : IsPad(cd, f) => sz[f] > 0 /\ sz[f] < P       \* a padding entry fills up a piece
          /\ AllowPartialFirst \/ \A f \in 1 .. n : ~PartialBeforeIntact(cd[f])
          /\ sizes = sz /\ cands = cd
          /\ dest = [f \in 1 .. n |-> 0] /\ dsize = [f \in 1 .. n |-> 0]
          /\ copied = {} /\ piece = 1 /\ pc = "run"
Step == /\ pc = "run"
        /\ IF piece > NP THEN pc' = "done" /\ UNCHANGED <<dest, dsize, copied, piece>>
           ELSE LET t == PieceStep(sizes, cands, PieceMap(sizes), piece, dest, dsize, copied)
                IN dest' = t[1] /\ dsize' = t[2] /\ copied' = t[3] /\ piece' = piece + 1 /\ pc' = pc
        /\ UNCHANGED <<sizes, cands>>
Spec == Init /\ [][Step]_vars
FairSpec == Spec /\ WF_vars(Step)
Terminates == <>(pc = "done")

\* the closure agrees with the step-by-step run (binds MatchAll to Step)
ClosureAgrees == pc = "done" => dest = MatchAll(sizes, cands)
ClassOf(f) == IF dest[f] = 0 THEN "absent" ELSE cands[f][dest[f]]
\* C14: a candidate none of whose bytes verify is never placed
Safe == /\ \A f \in DOMAIN sizes : (sizes[f] > 0 /\ dest[f] # 0) => ClassOf(f) # "decoy_all"
        /\ \A f \in DOMAIN sizes : IsPad(cands, f) => dest[f] = 0              \* nothing is ever written for padding
\* the same two properties for the v2 rule, on the same universe of scenarios
V2Safe == \A f \in DOMAIN sizes : LET k == MatchV2(sizes, cands)[f] IN
             (~IsPad(cands, f) /\ k # 0 /\ sizes[f] > 0) => cands[f][k] = "intact"
V2Complete == \A f \in DOMAIN sizes :
                 (~IsPad(cands, f) /\ \E k \in DOMAIN cands[f] : cands[f][k] = "intact")
                    => LET k == MatchV2(sizes, cands)[f] IN k # 0 /\ (sizes[f] > 0 => cands[f][k] = "intact")
\* C13: complete whenever an intact copy of every file is available
CompleteRun == pc = "done" =>
               LET Real == {f \in DOMAIN sizes : ~IsPad(cands, f)} IN
               ((\A f \in Real : \E k \in DOMAIN cands[f] : cands[f][k] = "intact")
                  => \A f \in Real : ClassOf(f) = "intact" \/ (sizes[f] = 0 /\ dest[f] # 0))
=============================================================================
