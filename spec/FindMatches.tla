----------------------------- MODULE FindMatches -----------------------------
(* Implementation-shaped model of the v1 rebuild matching: Metadata._match_v1, *)
(* PieceNode._find_matches (depth-first search over the candidates of the      *)
(* files a piece touches), utils.copypath's skip rule, and the `copied` list.  *)
(* Files have byte sizes in a scaled world; every file has an ordered list of  *)
(* same-named candidates of a class (RebuildRef); a candidate's bytes in a     *)
(* range verify according to its class.                                        *)
(* Variant "code"  : _find_matches returns after the first same-sized          *)
(*                   candidate whether or not it matched (pinned commit)       *)
(* Variant "fixed" : it goes on to the next candidate                          *)
(* AllowPartialFirst: whether a partially matching decoy may be enumerated     *)
(* before the intact copy.  With TRUE the model exhibits the KNOWN FINDING of  *)
(* C13: a file is placed as soon as ONE piece containing it verifies, later    *)
(* pieces inside an already copied file are skipped, and copypath never        *)
(* replaces a full-length file - so the partial decoy stays.                   *)
EXTENDS Core, RebuildRef, MapPiecesRef
CONSTANTS Variant, AllowPartialFirst, MaxFiles, MaxSize, P, Classes

RangeOK(cls, size, lo, len) ==
    len = 0 \/ CASE cls = "intact" -> TRUE
                 [] cls = "decoy_all" -> FALSE
                 [] cls = "decoy_some" -> lo + len <= size - 1
                 [] cls = "decoy_head" -> lo >= 1
                 [] OTHER -> FALSE

\* slices of piece k incl. zero-length files (the fixed _map_pieces attaches them to a piece)
PieceFiles(sizes, k) == RefSlices(sizes, P, k)

RECURSIVE Dfs(_, _, _, _)
\* _find_matches over slices[j..]: <<found, choices>> with choices = <<file, candidate index>>*
Dfs(sizes, cands, slices, j) ==
    IF j > Len(slices) THEN <<TRUE, <<>>>>
    ELSE LET f == slices[j][1]
             cs == cands[f]
             RECURSIVE Try(_)
             Try(k) == IF k > Len(cs) THEN <<FALSE, <<>>>>
                       ELSE IF cs[k] \notin SameSize THEN Try(k + 1)                 \* size != len(pathnode)
                       ELSE LET ok == RangeOK(cs[k], sizes[f], slices[j][2], slices[j][3])
                                rest == IF ok THEN Dfs(sizes, cands, slices, j + 1) ELSE <<FALSE, <<>>>>
                            IN IF ok /\ rest[1] THEN <<TRUE, <<<<f, k>>>> \o rest[2]>>
                               ELSE IF Variant = "code" THEN <<FALSE, <<>>>>        \* `return val` inside the loop
                               ELSE Try(k + 1)
         IN Try(1)

\* copypath: copy unless the destination exists and is at least as large as the source
Copy(dest, f, k, destsize, size) ==
    IF dest[f] = 0 \/ destsize[f] < size THEN [dest EXCEPT ![f] = k] ELSE dest

VARIABLES sizes, cands, dest, dsize, copied, piece, pc
vars == <<sizes, cands, dest, dsize, copied, piece, pc>>
NP == CeilDiv(SumSeq(sizes), P)

CandLists == UNION {[1 .. n -> Classes] : n \in 1 .. 2}
PartialBeforeIntact(cs) == \E a, b \in DOMAIN cs : a < b /\ cs[b] = "intact" /\ cs[a] \in {"decoy_some", "decoy_head"}
Init == \E n \in 1 .. MaxFiles : \E sz \in [1 .. n -> 0 .. MaxSize] : \E cd \in [1 .. n -> CandLists] :
          /\ SumSeq(sz) > 0
          /\ AllowPartialFirst \/ \A f \in 1 .. n : ~PartialBeforeIntact(cd[f])
          /\ sizes = sz /\ cands = cd
          /\ dest = [f \in 1 .. n |-> 0] /\ dsize = [f \in 1 .. n |-> 0]
          /\ copied = {} /\ piece = 1 /\ pc = "run"
Step == /\ pc = "run"
        /\ IF piece > NP THEN pc' = "done" /\ UNCHANGED <<dest, dsize, copied, piece>>
           ELSE LET sl == PieceFiles(sizes, piece) IN
                IF Len(sl) = 1 /\ sl[1][1] \in copied
                THEN piece' = piece + 1 /\ UNCHANGED <<dest, dsize, copied, pc>>
                ELSE LET r == Dfs(sizes, cands, sl, 1) IN
                     IF r[1]
                     THEN LET RECURSIVE Place(_, _, _)
                              Place(d, ds, j) == IF j > Len(r[2]) THEN <<d, ds>>
                                                 ELSE LET f == r[2][j][1] k == r[2][j][2]
                                                          d2 == Copy(d, f, k, ds, sizes[f])
                                                      IN Place(d2, [ds EXCEPT ![f] = sizes[f]], j + 1)
                              pl == Place(dest, dsize, 1)
                          IN /\ dest' = pl[1] /\ dsize' = pl[2]
                             /\ copied' = copied \cup {r[2][j][1] : j \in DOMAIN r[2]}
                             /\ piece' = piece + 1 /\ pc' = pc
                     ELSE piece' = piece + 1 /\ UNCHANGED <<dest, dsize, copied, pc>>
        /\ UNCHANGED <<sizes, cands>>
Spec == Init /\ [][Step]_vars

ClassOf(f) == IF dest[f] = 0 THEN "absent" ELSE cands[f][dest[f]]
\* C14: a candidate none of whose bytes verify is never placed
Safe == \A f \in DOMAIN sizes : (sizes[f] > 0 /\ dest[f] # 0) => ClassOf(f) # "decoy_all"
\* C13: complete whenever an intact copy of every file is available
CompleteRun == pc = "done" =>
               ((\A f \in DOMAIN sizes : \E k \in DOMAIN cands[f] : cands[f][k] = "intact")
                  => \A f \in DOMAIN sizes : sizes[f] > 0 => ClassOf(f) = "intact")
=============================================================================
