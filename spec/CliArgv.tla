------------------------------- MODULE CliArgv -------------------------------
(* C20 at the level of single command-line TOKENS (Cli.tla works on option     *)
(* groups).  argparse as configured by torrentfile.cli for `create`:           *)
(*   list flags   -a/--announce/--tracker, --web-seed, --http-seed             *)
(*                (nargs="+"): "--flag v1 v2 ..." takes EVERY following free   *)
(*                token up to the next option - including the content path;    *)
(*                "--flag=v" takes exactly that one value                      *)
(*   scalar flags -s -c --piece-length --meta-version -o: the next token, or   *)
(*                the text after "="                                           *)
(*   switches     -p --align                                                   *)
(*   positional   content (nargs="?"): the first free token no flag took; a    *)
(*                second one is an error                                       *)
(* and MetaFile.__init__'s recovery of a swallowed content path: the LAST      *)
(* element of announce (only if it has more than one), else of url_list, else  *)
(* of httpseeds, whichever names something that exists.                        *)
(* One step of Parse per token (pc = position); Variants other than "fixed"    *)
(* are must-fail transcriptions of changes reviewers seeded:                   *)
(*   "untrimmed"  the recovered path stays in the list it was taken from       *)
(*   "first"      recovery looks at the first element                          *)
(*   "norecoverh" the recovery looks at announce and url_list only             *)
(* (a list flag spelled --flag=v that went on collecting tokens would NOT      *)
(* break anything: the recovery finds the path again - tried, TLC agrees)      *)
(*   "valmangle"  "_" -> "-" applied to the whole --flag=value token           *)
EXTENDS Core, FiniteSetsExt, SequencesExt
CONSTANTS Variant, MaxGroups

ListFlags == {"A", "W", "H"}
ScalarFlags == {"S", "C", "L", "O"}
Switches == {"P", "G"}
Flags == ListFlags \cup ScalarFlags \cup Switches
Path == "PATH"                        \* the only value that names something on disk
\* values are opaque; a value "with an underscore" is distinguished from its mangled form
Vals(f) == CASE f = "A" -> <<"a_1", "a_2">> [] f = "W" -> <<"w_1", "w_2">> [] f = "H" -> <<"h_1">>
             [] f = "S" -> <<"s_1">> [] f = "C" -> <<"c_1">> [] f = "L" -> <<"15">> [] f = "O" -> <<"o_1">>
             [] OTHER -> <<>>
Mangled(v) == IF Variant = "valmangle" /\ v \notin {"15", Path} THEN v \o "-mangled" ELSE v

\* tokens: <<"flag", f>> | <<"eq", f, v>> | <<"val", v>>
Plain(f, n) == <<<<"flag", f>>>> \o [k \in 1 .. n |-> <<"val", Vals(f)[k]>>]
Eq(f) == <<<<"eq", f, Vals(f)[1]>>>>
\* spellings of one option group: blank-separated with 1..len values, or --flag=value (one value)
Spellings(f) == IF f \in Switches THEN {<<<<"flag", f>>>>}
                ELSE {Plain(f, n) : n \in 1 .. Len(Vals(f))} \cup {Eq(f)}
Given(sp) == IF sp[1][1] = "eq" THEN <<sp[1][3]>> ELSE [k \in 1 .. Len(sp) - 1 |-> sp[k + 1][2]]

(* ---- argparse ---------------------------------------------------------------------- *)
EmptyNs == [lists |-> [f \in ListFlags |-> <<>>], scalars |-> [f \in ScalarFlags |-> "none"],
            switches |-> {}, content |-> "none", error |-> FALSE]
\* collecting: the list flag that is still taking free tokens ("none" otherwise)
\* awaiting: the scalar flag whose value is the next token
InitSt(argv) == [argv |-> argv, i |-> 1, ns |-> EmptyNs, collecting |-> "none", awaiting |-> "none", pc |-> "run"]
Step(st) ==
    IF st.pc # "run" THEN st
    ELSE IF st.i > Len(st.argv) THEN
        \* end of input: a scalar flag without its value / a list flag without any value is an error
        [st EXCEPT !.pc = "done",
                   !.ns.error = @ \/ st.awaiting # "none"
                                  \/ (st.collecting # "none" /\ st.ns.lists[st.collecting] = <<>>)]
    ELSE LET t == st.argv[st.i]
             nxt == [st EXCEPT !.i = st.i + 1]
         IN
         IF t[1] = "val" THEN
             IF st.awaiting # "none"
             THEN [nxt EXCEPT !.ns.scalars[st.awaiting] = t[2], !.awaiting = "none"]
             ELSE IF st.collecting # "none"
             THEN [nxt EXCEPT !.ns.lists[st.collecting] = Append(@, t[2])]
             ELSE IF st.ns.content = "none" THEN [nxt EXCEPT !.ns.content = t[2]]
             ELSE [nxt EXCEPT !.ns.error = TRUE]                  \* unrecognized arguments
         ELSE \* an option token ends whatever was being collected
             LET closed == [nxt EXCEPT !.collecting = "none",
                                       !.ns.error = @ \/ st.awaiting # "none"
                                                      \/ (st.collecting # "none" /\ st.ns.lists[st.collecting] = <<>>)]
                 f == t[2]
             IN IF t[1] = "flag" THEN
                    IF f \in Switches THEN [closed EXCEPT !.ns.switches = @ \cup {f}]
                    ELSE IF f \in ScalarFlags THEN [closed EXCEPT !.awaiting = f]
                    ELSE [closed EXCEPT !.collecting = f, !.ns.lists[f] = <<>>]
                ELSE \* "eq"
                    IF f \in ScalarFlags THEN [closed EXCEPT !.ns.scalars[f] = Mangled(t[3])]
                    ELSE [closed EXCEPT !.ns.lists[f] = <<Mangled(t[3])>>,
                                        !.collecting = "none"]
RECURSIVE Run(_)
Run(st) == IF st.pc = "done" THEN st ELSE Run(Step(st))
ParseArgv(argv) == Run(InitSt(argv)).ns

(* ---- MetaFile.__init__ --------------------------------------------------------------- *)
Exists(v) == v = Path
Pick(s) == IF Variant = "first" THEN s[1] ELSE s[Len(s)]
Trim(s) == IF Variant = "untrimmed" THEN s ELSE IF Variant = "first" THEN Tail(s) ELSE SubSeq(s, 1, Len(s) - 1)
MetaInit(ns) ==
    IF ns.error THEN [ok |-> FALSE, path |-> "none", lists |-> ns.lists]
    ELSE IF ns.content # "none" THEN [ok |-> Exists(ns.content), path |-> ns.content, lists |-> ns.lists]
    ELSE IF Len(ns.lists["A"]) > 1 /\ Exists(Pick(ns.lists["A"]))
         THEN [ok |-> TRUE, path |-> Pick(ns.lists["A"]), lists |-> [ns.lists EXCEPT !["A"] = Trim(@)]]
    ELSE IF ns.lists["W"] # <<>> /\ Exists(Pick(ns.lists["W"]))
         THEN [ok |-> TRUE, path |-> Pick(ns.lists["W"]), lists |-> [ns.lists EXCEPT !["W"] = Trim(@)]]
    ELSE IF Variant # "norecoverh" /\ ns.lists["H"] # <<>> /\ Exists(Pick(ns.lists["H"]))
         THEN [ok |-> TRUE, path |-> Pick(ns.lists["H"]), lists |-> [ns.lists EXCEPT !["H"] = Trim(@)]]
    ELSE [ok |-> FALSE, path |-> "none", lists |-> ns.lists]

(* ---- model checking: every order of <= MaxGroups option groups in every spelling, the content path in ---- *)
(* ---- every gap between groups                                                                          ---- *)
VARIABLES groups, pos, st
vars == <<groups, pos, st>>
Perms(T) == {p \in [1 .. Cardinality(T) -> T] : \A a, b \in DOMAIN p : a # b => p[a] # p[b]}
Argv(gs, p) == FlattenSeq(SubSeq(gs, 1, p)) \o <<<<"val", Path>>>> \o FlattenSeq(SubSeq(gs, p + 1, Len(gs)))
Init == \E S \in {T \in SUBSET Flags : Cardinality(T) <= MaxGroups} : \E order \in Perms(S) :
        \E gs \in [1 .. Cardinality(S) -> UNION {Spellings(f) : f \in S}] :
            /\ \A k \in DOMAIN gs : gs[k] \in Spellings(order[k])
            /\ groups = gs /\ pos \in 0 .. Len(gs)
            /\ st = InitSt(Argv(gs, pos))
Next == st.pc # "done" /\ st' = Step(st) /\ UNCHANGED <<groups, pos>>
Spec == Init /\ [][Next]_vars
FairSpec == Spec /\ WF_vars(Next)
Terminates == <>(st.pc = "done")

FlagOf(g) == g[1][2]
\* a scalar flag directly followed by the content path takes the path for its value: that command line does not
\* mean what its author intended whatever the tool does - it is excluded from the obligation
Ambiguous == \E k \in DOMAIN groups : k = pos /\ groups[k][1][1] = "flag" /\ FlagOf(groups[k]) \in ScalarFlags
                                                /\ Len(groups[k]) = 1
WantLists == [f \in ListFlags |-> IF \E k \in DOMAIN groups : FlagOf(groups[k]) = f
                                  THEN Given(groups[CHOOSE k \in DOMAIN groups : FlagOf(groups[k]) = f]) ELSE <<>>]
WantScalars == [f \in ScalarFlags |-> IF \E k \in DOMAIN groups : FlagOf(groups[k]) = f
                                      THEN Given(groups[CHOOSE k \in DOMAIN groups : FlagOf(groups[k]) = f])[1] ELSE "none"]
\* C20 (command-line half): whatever the order and the spelling, every option lands in its field with exactly
\* the values given, and the content path is found
ArgvRefines == (st.pc = "done" /\ ~Ambiguous) =>
                  LET r == MetaInit(st.ns) IN
                  /\ r.ok /\ r.path = Path /\ r.lists = WantLists
                  /\ st.ns.scalars = WantScalars
                  /\ st.ns.switches = {FlagOf(groups[k]) : k \in {j \in DOMAIN groups : FlagOf(groups[j]) \in Switches}}
ClosureAgrees == st.pc = "done" => ParseArgv(st.argv) = st.ns
\* emission of the universe for replay into the real command line (Sim_CliArgv.cfg)
AtStart == st.i = 1 /\ st.pc = "run"
EmitArgv == AtStart => PrintT(<<"ARGV", [argv |-> st.argv, ambiguous |-> Ambiguous]>>)
=============================================================================
