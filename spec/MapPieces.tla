----------------------------- MODULE MapPieces -----------------------------
(* Implementation-shaped model of rebuild.Metadata._map_pieces: which byte     *)
(* ranges of which files make up each v1 piece.  One OuterStep per iteration   *)
(* of `for i in range(total_pieces)`, the inner `while` as a recursive         *)
(* operator.  A path node is <<file, start, stop>> (stop = -1: to the end).    *)
(* Variant "code"  : pinned commit (`remainder < target`, `size < target`)     *)
(* Variant "fixed" : `<=` in both places + trailing empty files attached to    *)
(*                   the last piece                                            *)
EXTENDS Core, MapPiecesRef
CONSTANTS MaxFiles, MaxSize, PieceLens, Variant

Le(a, b) == IF Variant = "code" THEN a < b ELSE a <= b

RECURSIVE While(_, _, _, _, _, _)
\* the inner while loop: returns <<nodes, target, file_index, remainder, current>>
While(sizes, target, fi, rem, cur, nodes) ==
    IF ~(target > 0 /\ fi < Len(sizes)) THEN <<nodes, target, fi, rem, cur>>
    ELSE LET c == fi + 1                      \* files[file_index], 1-based
             size == sizes[c]
         IN IF Le(size, target)
            THEN While(sizes, target - size, fi + 1, rem, c, Append(nodes, <<c, 0, -1>>))
            ELSE While(sizes, 0, fi, size - target, c, Append(nodes, <<c, 0, target>>))

OuterStep(st) ==
    LET P == st.P
        pre == IF st.rem > 0
               THEN LET start == st.sizes[st.cur] - st.rem IN
                    IF Le(st.rem, P)
                    THEN [nodes |-> <<<<st.cur, start, -1>>>>, target |-> P - st.rem, rem |-> 0, fi |-> st.fi + 1]
                    ELSE [nodes |-> <<<<st.cur, start, start + P>>>>, target |-> 0, rem |-> st.rem - P, fi |-> st.fi]
               ELSE [nodes |-> <<>>, target |-> P, rem |-> 0, fi |-> st.fi]
        w == While(st.sizes, pre.target, pre.fi, pre.rem, st.cur, pre.nodes)
    IN [st EXCEPT !.pieces = Append(st.pieces, w[1]), !.fi = w[3], !.rem = w[4], !.cur = w[5], !.i = st.i + 1]

Finish(st) ==      \* fixed: empty files listed after the last byte belong to the last piece
    IF Variant = "code" \/ st.pieces = <<>> THEN [st EXCEPT !.pc = "done"]
    ELSE LET extra == [k \in 1 .. (Len(st.sizes) - st.fi) |-> <<st.fi + k, 0, -1>>]
             keep == SelectSeq(extra, LAMBDA nd : st.sizes[nd[1]] = 0)
             last == Len(st.pieces)
         IN [st EXCEPT !.pieces[last] = st.pieces[last] \o keep, !.pc = "done"]

NP(st) == CeilDiv(Total(st.sizes), st.P)
Step(st) == IF st.i < NP(st) THEN OuterStep(st) ELSE Finish(st)

\* a path node read the way PathNode.get_part reads it
NodeRange(sizes, nd) == <<nd[1], nd[2], IF nd[3] = -1 THEN sizes[nd[1]] - nd[2] ELSE nd[3] - nd[2]>>
NonEmpty(sizes, nodes) == SelectSeq([j \in DOMAIN nodes |-> NodeRange(sizes, nodes[j])], LAMBDA r : r[3] > 0)

\* the closure: the whole piece map of a torrent (used by FindMatches and by the trace specification)
RECURSIVE RunMap(_)
RunMap(s) == IF s.pc = "done" THEN s ELSE RunMap(Step(s))
MapAll(sizes, P) == RunMap([pc |-> "run", sizes |-> sizes, P |-> P, i |-> 0, fi |-> 0, rem |-> 0, cur |-> 1,
                            pieces |-> <<>>]).pieces
\* piece k as <<file, offset, length>> ranges, zero-length files included
Ranges(sizes, nodes) == [j \in DOMAIN nodes |-> NodeRange(sizes, nodes[j])]

VARIABLE st
Init == \E n \in 1 .. MaxFiles, P \in PieceLens : \E sizes \in [1 .. n -> 0 .. MaxSize] :
            /\ Total(sizes) > 0
            /\ st = [pc |-> "run", sizes |-> sizes, P |-> P, i |-> 0, fi |-> 0, rem |-> 0, cur |-> 1, pieces |-> <<>>]
Next == st.pc = "run" /\ st' = Step(st)
Spec == Init /\ [][Next]_st
FairSpec == Spec /\ WF_st(Next)
Terminates == <>(st.pc # "run")
\* C13: every piece is mapped to exactly the byte ranges of the stream slice it hashes
MapCorrect == st.pc = "done" =>
                 /\ Len(st.pieces) = NP(st)
                 /\ \A k \in DOMAIN st.pieces : NonEmpty(st.sizes, st.pieces[k]) = RefSlices(st.sizes, st.P, k)
\* every file (also the empty ones) belongs to some piece, so that it can be rebuilt
AllFilesMapped == st.pc = "done" =>
                    \A f \in DOMAIN st.sizes : \E k \in DOMAIN st.pieces : \E j \in DOMAIN st.pieces[k] : st.pieces[k][j][1] = f
=============================================================================
