---------------------------- MODULE CoreLemmas ----------------------------
(* Unbounded facts about the arithmetic the padding and piece-count          *)
(* arguments rest on, proved with TLAPS (SMT back end) for ALL naturals -      *)
(* TLC checks the same operators only on the scaled world.                     *)
EXTENDS Naturals, Integers, TLAPS

PadGap(size, P) == (P - (size % P)) % P
CeilDiv(a, b) == (a + b - 1) \div b

THEOREM PadGapRange == \A size \in Nat, P \in Nat \ {0} : PadGap(size, P) \in 0 .. (P - 1)
  BY DEF PadGap

\* Two facts about % with a SYMBOLIC divisor that the SMT back ends cannot derive (non-linear arithmetic).  Both
\* are immediate from the definition of % in the standard module Integers (a % b is the unique r in 0 .. b-1
\* with a = b * q + r for some integer q); they are the only assumptions of this module.
AXIOM MultipleMod == \A P \in Nat \ {0}, k \in Nat : (P * k) % P = 0
AXIOM SmallMod == \A P \in Nat \ {0} : \A x \in 0 .. (P - 1) : x % P = x

THEOREM PadGapAligns == \A size \in Nat, P \in Nat \ {0} : (size + PadGap(size, P)) % P = 0
<1> SUFFICES ASSUME NEW size \in Nat, NEW P \in Nat \ {0}
             PROVE  (size + PadGap(size, P)) % P = 0
    OBVIOUS
<1> DEFINE r == size % P
<1> DEFINE q == size \div P
<1>1. size = P * q + r /\ r \in 0 .. (P - 1) /\ q \in Nat
    OBVIOUS
<1>2. CASE r = 0
    <2>1. PadGap(size, P) = 0
        BY <1>2 DEF PadGap
    <2> QED
        BY <2>1, <1>2
<1>3. CASE r > 0
    <2>1. PadGap(size, P) = P - r
        <3>1. P - r \in 0 .. (P - 1)
            BY <1>3, <1>1
        <3> QED
            BY <3>1, SmallMod DEF PadGap
    <2>2. size + (P - r) = P * (q + 1)
        BY <1>1
    <2>3. (P * (q + 1)) % P = 0
        BY <1>1, MultipleMod
    <2> QED
        BY <2>1, <2>2, <2>3
<1> QED
    BY <1>1, <1>2, <1>3

THEOREM PadGapZero == \A size \in Nat, P \in Nat \ {0} : (size % P = 0) <=> (PadGap(size, P) = 0)
  BY DEF PadGap

THEOREM CeilDivCovers == \A a \in Nat, b \in Nat \ {0} : CeilDiv(a, b) * b >= a /\ (a > 0 => (CeilDiv(a, b) - 1) * b < a)
  BY DEF CeilDiv
=============================================================================
