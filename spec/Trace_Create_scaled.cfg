SPECIFICATION Spec
CONSTANT B = 2
POSTCONDITION AllConsumed
CHECK_DEADLOCK FALSE
