------------------------------- MODULE FsPolicyOps -------------------------------
(* C18: per-command filesystem policies over FsModel, and the command          *)
(* programs as the code performs them.                                         *)
(*   recheck / info / magnet : no mutating operation at all                    *)
(*   create : operations only on the output path O (including the writability  *)
(*            probe, which opens O for append and removes it again); at the    *)
(*            end exactly O was added or replaced, the payload is untouched    *)
(*   rename : exactly one rename M -> N, only when N does not exist            *)
EXTENDS Core, FsModel

ReadOnlyCmds == {"recheck", "info", "magnet"}
AllowedOp(cmd, op) ==
    CASE cmd \in ReadOnlyCmds -> FALSE
      [] cmd = "create" -> op.p \in {"O", "probe"} /\ op.kind \in {"open_trunc", "open_append", "open_create", "write", "close", "remove"}
      [] cmd = "rename" -> op.kind = "rename" /\ op.p = "M" /\ op.p2 = "N"
      [] OTHER -> FALSE
PolicyOK(cmd, ops) == \A k \in DOMAIN ops : AllowedOp(cmd, ops[k])

=============================================================================
