SPECIFICATION Spec
CONSTANTS
  Variant = "fixed"
  MaxOps = 6
  MaxSize = 2
VIEW View
INVARIANT ResultFresh
CHECK_DEADLOCK FALSE
