SPECIFICATION Spec
CONSTANT Variant = "notrunc"
INVARIANT NeverLost
INVARIANT ErrorLeavesComplete
INVARIANT DoneIsNew
CHECK_DEADLOCK FALSE
