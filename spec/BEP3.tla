------------------------------- MODULE BEP3 -------------------------------
(* Reference layer: BEP 3 piece hashing of a byte stream, in the descriptor    *)
(* domain.  <<"S", k, len, z>> denotes "SHA-1 of slice k of the stream (len    *)
(* real bytes) followed by z zero bytes".  A conformant piece string has z = 0 *)
(* everywhere and only the last piece shorter than P.                          *)
EXTENDS Core

RefS(total, P, k) == <<"S", k, Min(P, total - k * P), 0>>
NumPieces(total, P) == CeilDiv(total, P)
RefPieces(total, P) == [k \in 1 .. NumPieces(total, P) |-> RefS(total, P, k - 1)]

(* piece-aligned / hybrid streams: every payload file is followed by a pad of  *)
(* PadGap bytes; the pad after the LAST file is optional (BEP 47 / BEP 52).    *)
RECURSIVE PaddedTotal(_, _, _)
PaddedTotal(sizes, P, trailing) ==
    IF sizes = <<>> THEN 0
    ELSE IF Len(sizes) = 1 THEN sizes[1] + (IF trailing THEN PadGap(sizes[1], P) ELSE 0)
    ELSE sizes[1] + PadGap(sizes[1], P) + PaddedTotal(Tail(sizes), P, trailing)

(* offsets (0-based) at which each file starts in a stream of entries          *)
RECURSIVE StartsOf(_, _)
StartsOf(lens, from) == IF lens = <<>> THEN <<>>
                        ELSE <<from>> \o StartsOf(Tail(lens), from + Head(lens))
=============================================================================
