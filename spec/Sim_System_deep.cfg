SPECIFICATION Spec
CONSTANTS
  Variant = "fixed"
  MaxOps = 14
  MaxSize = 3
INVARIANT Emit
CHECK_DEADLOCK FALSE
