SPECIFICATION Spec
CONSTANTS
  Variant = "fixed"
  MaxOps = 14
  MaxSize = 2
INVARIANT Emit
CHECK_DEADLOCK FALSE
