SPECIFICATION Spec
CONSTANTS
  Variant = "fixed"
  AllowPartialFirst = FALSE
  MaxFiles = 4
  MaxSize = 3
  P = 2
  Classes = {"intact", "decoy_all", "pad"}
INVARIANT Safe
INVARIANT CompleteRun
INVARIANT ClosureAgrees
CHECK_DEADLOCK FALSE
