--------------------------------- MODULE Cli ---------------------------------
(* C20: a create option means the same via flag (in any position relative to   *)
(* the content path), configuration file or keyword.                           *)
(* Reference (CliRef): the intended option record.                             *)
(* Implementation-shaped (CliImpl):                                            *)
(*   command line : argparse - list-valued flags (nargs="+": -a/--announce,    *)
(*                  --web-seed, --http-seed) greedily take every following     *)
(*                  token up to the next option, so they swallow the           *)
(*                  positional content path when it comes right after them;    *)
(*                  MetaFile.__init__ then recovers the path from the tail of  *)
(*                  announce (only if it has more than one element), else     *)
(*                  url_list, else httpseeds, testing os.path.exists           *)
(*   config file  : commands.parse_config_file key mapping                     *)
(*      Variant "code"  : web-seed -> "url-list", out -> "out", tracker ->     *)
(*                        "tracker" (none of them a keyword of MetaFile)       *)
(*      Variant "fixed" : web-seed -> url_list, out -> outfile, tracker ->     *)
(*                        announce                                             *)
(*   keywords     : passed through                                             *)
(* An argv is a sequence of groups; "PATH" is the positional content path.     *)
EXTENDS Core, FiniteSetsExt, SequencesExt
CONSTANTS Variant, MaxGroups

ListFlags == {"A", "W", "H"}                   \* announce, web-seed, http-seed
ScalarFlags == {"P", "S", "C", "L", "V", "O", "G"}  \* private source comment piece-length meta-version out align
Flags == ListFlags \cup ScalarFlags
\* the intended record: which options are given (values are opaque: "vA" etc.)
Intended(S) == [f \in Flags |-> f \in S]

(* ---- command line ---------------------------------------------------------------- *)
\* argparse: walk the groups; a list flag directly followed by PATH takes it as one more value
Parse(argv) ==
    LET n == Len(argv)
        swallowedBy == IF \E k \in 1 .. n - 1 : argv[k + 1] = "PATH" /\ argv[k] \in ListFlags
                       THEN argv[CHOOSE k \in 1 .. n - 1 : argv[k + 1] = "PATH" /\ argv[k] \in ListFlags]
                       ELSE "none"
    IN [given |-> {argv[k] : k \in {j \in 1 .. n : argv[j] # "PATH"}},
        content |-> swallowedBy = "none",         \* args.content is set
        extra |-> swallowedBy]                     \* which list got the path appended
\* MetaFile.__init__: recover the content path
Recover(ns) ==
    IF ns.content THEN [path |-> TRUE, lists |-> [f \in ListFlags |-> "clean"]]
    ELSE
      \* announce: needs len(announce) > 1 - true here whenever it swallowed the path (>= 1 url + path)
      IF ns.extra = "A" THEN [path |-> TRUE, lists |-> [f \in ListFlags |-> "clean"]]
      ELSE IF ns.extra = "W" THEN [path |-> TRUE, lists |-> [f \in ListFlags |-> "clean"]]
      ELSE IF ns.extra = "H" THEN [path |-> TRUE, lists |-> [f \in ListFlags |-> "clean"]]
      ELSE [path |-> FALSE, lists |-> [f \in ListFlags |-> "clean"]]
CliResult(argv) == LET ns == Parse(argv) r == Recover(ns)
                   IN [ok |-> r.path, opts |-> [f \in Flags |-> f \in ns.given],
                       polluted |-> {f \in ListFlags : r.lists[f] # "clean"}]

(* ---- configuration file ------------------------------------------------------------- *)
\* which MetaFile keyword a config key ends up as ("-" = not a keyword: silently ignored)
ConfigKey(f) == CASE f = "A" -> "announce" [] f = "H" -> "httpseeds" [] f = "P" -> "private"
                  [] f = "S" -> "source" [] f = "C" -> "comment" [] f = "L" -> "piece_length"
                  [] f = "V" -> "meta_version" [] f = "G" -> "align"
                  [] f = "W" -> IF Variant = "code" THEN "-" ELSE "url_list"
                  [] f = "O" -> IF Variant = "code" THEN "-" ELSE "outfile"
ConfigResult(S) == [ok |-> TRUE, opts |-> [f \in Flags |-> f \in S /\ ConfigKey(f) # "-"], polluted |-> {}]
KeywordResult(S) == [ok |-> TRUE, opts |-> Intended(S), polluted |-> {}]

(* ---- model checking -------------------------------------------------------------------- *)
VARIABLES S, argv
Perms(T) == {p \in [1 .. Cardinality(T) -> T] : \A a, b \in DOMAIN p : a # b => p[a] # p[b]}
Init == /\ S \in {T \in SUBSET Flags : Cardinality(T) <= MaxGroups}
        /\ argv \in Perms(S \cup {"PATH"})
Next == UNCHANGED <<S, argv>>
Spec == Init /\ [][Next]_<<S, argv>>
Want == [ok |-> TRUE, opts |-> Intended(S), polluted |-> {}]
CliRefines == CliResult(argv) = Want
ConfigRefines == ConfigResult(S) = Want
KeywordRefines == KeywordResult(S) = Want
=============================================================================
