----------------------------- MODULE TraceMagnet -----------------------------
(* Trace specification for C11: a record is one call of magnet() / the CLI on  *)
(* a metafile (created here, edited here, or written by the reference encoder  *)
(* with arbitrary key sets), the returned URI parsed with a standard URL       *)
(* parser.  Text is hex of UTF-8 bytes; each xt parameter is reported as its   *)
(* kind plus whether its digest equals the SHA-1 / SHA-256 of the raw info     *)
(* span located by the strict decoder.                                         *)
EXTENDS Core, MagnetOps, TLC, Json, IOUtils

Recs == ndJsonDeserialize(IOEnv.TRACE_FILE)
VARIABLE i
Meta(r) == [v1 |-> r.meta.v1, v2 |-> r.meta.v2, name |-> r.meta.name, announce |-> r.meta.announce,
            tiers |-> r.meta.tiers, seeds |-> r.meta.seeds]
Clause(r, c) ==
  LET mm == Meta(r)
      ref == Ref(mm, r.request) IN
  CASE c = "C11.xt" -> /\ r.status = "ok" /\ r.scheme_ok
                       /\ [k \in DOMAIN r.xt |-> r.xt[k].kind] = ref.xt
                       /\ \A k \in DOMAIN r.xt : IF r.xt[k].kind = "btih" THEN r.xt[k].eq_sha1 ELSE r.xt[k].eq_sha256
    [] c = "C11.dn" -> r.status = "ok" /\ r.dn = ref.dn
    [] c = "C11.tr" -> r.status = "ok" /\ r.tr = ref.tr
    [] c = "C11.ws" -> r.status = "ok" /\ r.ws = ref.ws
    [] c = "C11.noextra" -> r.status = "ok" /\ r.other = <<>>
    [] OTHER -> FALSE
Report(r) == \A k \in DOMAIN r.clauses :
                IF Clause(r, r.clauses[k]) THEN TRUE ELSE PrintT(<<"FAIL", r.id, r.clauses[k]>>)
Init == i = 0
Next == i < Len(Recs) /\ Report(Recs[i + 1]) /\ i' = i + 1
Spec == Init /\ [][Next]_i
AllConsumed == TLCGet("stats").diameter = Len(Recs) + 1
=============================================================================
