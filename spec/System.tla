------------------------------- MODULE System -------------------------------
(* C09: results never depend on what the process did earlier.                  *)
(* A small world: content root r with file r/a and sub-directory r/d holding   *)
(* r/d/b and r/d/c.  The environment adds, deletes, grows, shrinks and         *)
(* rewrites files between operations; the process creates metafiles for r,     *)
(* r/d (directories) and r/a (single file) and rechecks / rebuilds / edits /   *)
(* inspects them.  The only process-lifetime state of the tool that can reach  *)
(* a result is the Memo cache around utils.filelist_total, which is keyed by   *)
(* the path string, filled for every sub-path by the recursion, and validated  *)
(* only by os.path.exists:                                                     *)
(*   Variant "code"  : Memo as found at the pinned commit                      *)
(*   Variant "fixed" : no reuse across calls                                   *)
(* Two further kinds of process-lifetime state are modelled as must-fail       *)
(* variants (neither exists in the code; both were seeded by reviewers):       *)
(*   Variant "statcache"  : per-file hashes reused while (size, modification   *)
(*                          stamp) are unchanged - wrong for a file rewritten  *)
(*                          in place whose time stamp is put back              *)
(*                          (rsync --inplace --times)                          *)
(*   Variant "sharedindex": the candidate index of a rebuild survives into the *)
(*                          next rebuild, which then finds files outside the   *)
(*                          search directories it was given                    *)
(*   Variant "cwdleak"    : a create that fails while hashing leaves the       *)
(*                          process's working directory inside the content     *)
(*                          root (chdir without try/finally); the operations   *)
(*                          that follow name their paths relative to the       *)
(*                          directory the process was started in (seed R13)    *)
(*   Variant "rootcache"  : rebuild remembers, for the rest of the process, the  *)
(*                          root it computed for a candidate (path, size) and  *)
(*                          trusts it in later rebuilds - a candidate that got *)
(*                          other bytes of the same length in between is then  *)
(*                          placed although nothing of it verifies (seed R23)  *)
(*   Variant "guardleak"  : the directory listing keeps a process-wide set of  *)
(*                          directories "being listed" (a symlink-cycle guard) *)
(*                          and takes a directory out again only when its      *)
(*                          listing ends normally: a create that fails on a    *)
(*                          dangling link below r/d leaves r (and r/d) in the   *)
(*                          set, and every later listing of them is empty      *)
(*                          (seed R28-C09)                                     *)
(* hist is a history variable (excluded from the fingerprint by VIEW) used to  *)
(* emit behaviours for replay with -simulate.                                  *)
EXTENDS Core, TLC, FiniteSetsExt
CONSTANTS Variant, MaxOps, MaxSize

Files == {"a", "b", "c"}
DirOf(f) == IF f = "a" THEN "r" ELSE "d"
PathOf(f) == IF f = "a" THEN "r/a" ELSE IF f = "b" THEN "r/d/b" ELSE "r/d/c"
Targets == {"r", "r/d", "r/a"}
Absent == -1
Under(t) == CASE t = "r" -> Files [] t = "r/d" -> {"b", "c"} [] t = "r/a" -> {"a"}

VARIABLES fs, gen, stamp, memo, hc, idx, metas, last, nops, hist, cwd,
          link,     \* a dangling symbolic link r/d/zz exists: listing r or r/d raises (in a fresh process too)
          stuck,    \* "guardleak": directories left in the guard set by a listing that ended in an exception
          made,     \* what the metafile of each target records: file -> <<size, generation>> (<<-1, -1>>: not listed)
          rc        \* "rootcache": candidate file -> the (size, generation) its remembered root was computed from
vars == <<fs, gen, stamp, memo, hc, idx, metas, last, nops, hist, cwd, made, rc, link, stuck>>
View == <<fs, gen, stamp, memo, hc, idx, metas, last, nops, cwd, made, rc, link, stuck>>

Present(f) == fs[f] # Absent
TargetExists(t) == IF t = "r/a" THEN Present("a") ELSE TRUE

(* ---- reference: what a fresh process computes ---------------------------------- *)
FreshListing(t) == {f \in Under(t) : Present(f)}
FreshCreate(t) == [kind |-> "meta", files |-> FreshListing(t),
                   sizes |-> [f \in FreshListing(t) |-> fs[f]],
                   gens |-> [f \in FreshListing(t) |-> gen[f]]]

(* ---- the tool: filelist_total through the Memo ------------------------------------ *)
NoEntry == [has |-> FALSE, files |-> {}, total |-> 0]
Hit(m, key, exists) == Variant = "code" /\ m[key].has /\ exists
\* file entry: <<size>> cached; directory entry: listing + total
LookupFile(m, f) == IF Hit(m, PathOf(f), Present(f)) THEN m[PathOf(f)]
                    ELSE [has |-> TRUE, files |-> {f}, total |-> fs[f]]
SumPairs(S) == LET RECURSIVE Go(_)
                 Go(T) == IF T = {} THEN 0 ELSE LET x == CHOOSE y \in T : TRUE IN x[2] + Go(T \ {x})
             IN Go(S)
LookupD(m) == IF Hit(m, "r/d", TRUE) THEN m["r/d"]
              ELSE LET kids == {f \in {"b", "c"} : Present(f)}
                       ents == [f \in kids |-> LookupFile(m, f)]
                   IN [has |-> TRUE, files |-> UNION {ents[f].files : f \in kids},
                       total |-> SumPairs({<<f, ents[f].total>> : f \in kids})]
LookupR(m) == IF Hit(m, "r", TRUE) THEN m["r"]
              ELSE LET ea == IF Present("a") THEN LookupFile(m, "a") ELSE NoEntry
                       ed == LookupD(m)
                   IN [has |-> TRUE, files |-> ea.files \cup ed.files, total |-> ea.total + ed.total]
Lookup(m, t) == CASE t = "r" -> LookupR(m) [] t = "r/d" -> LookupD(m) [] t = "r/a" -> LookupFile(m, "a")
\* the cache after a lookup of t: every entry that was computed is stored
Store(m, t) ==
    LET upd(mm, key, val) == [mm EXCEPT ![key] = val]
        withFiles(mm, S) == [k \in DOMAIN mm |->
                               IF \E f \in S : PathOf(f) = k /\ Present(f) /\ ~Hit(mm, k, TRUE)
                               THEN LET f == CHOOSE g \in S : PathOf(g) = k IN [has |-> TRUE, files |-> {f}, total |-> fs[f]]
                               ELSE mm[k]]
    IN CASE t = "r/a" -> withFiles(m, {"a"})
         [] t = "r/d" -> IF Hit(m, "r/d", TRUE) THEN m
                         ELSE upd(withFiles(m, {"b", "c"}), "r/d", LookupD(m))
         [] t = "r" -> IF Hit(m, "r", TRUE) THEN m
                       ELSE LET m1 == withFiles(m, {"a"})
                                m2 == IF Hit(m, "r/d", TRUE) THEN m1 ELSE upd(withFiles(m1, {"b", "c"}), "r/d", LookupD(m))
                            IN upd(m2, "r", LookupR(m))

\* "statcache": the bytes hashed for f are the cached ones while size and stamp look unchanged
NoHash == [has |-> FALSE, size |-> 0, stamp |-> 0, gen |-> 0]
CacheHit(f) == Variant = "statcache" /\ hc[f].has /\ hc[f].size = fs[f] /\ hc[f].stamp = stamp[f]
\* TorrentFile.assemble etc.: listing from the memo; per-file sizes of a directory torrent are read
\* fresh (os.path.getsize), a single file's length is the memoised total; a listed file that has
\* vanished makes the create fail
ToolCreate(t) ==
    LET e == Lookup(memo, t) IN
    IF \E f \in e.files : ~Present(f) THEN [kind |-> "error", files |-> {}, sizes |-> <<>>, gens |-> <<>>]
    ELSE [kind |-> "meta", files |-> e.files,
          sizes |-> [f \in e.files |-> IF t = "r/a" THEN e.total ELSE fs[f]],
          gens |-> [f \in e.files |-> IF CacheHit(f) THEN hc[f].gen ELSE gen[f]]]

(* ---- actions ------------------------------------------------------------------------ *)
Log(op) == hist' = Append(hist, op)
Step == nops < MaxOps /\ nops' = nops + 1
\* pl: which of two piece lengths is requested (process-lifetime state of the hashers must not carry
\* anything over from an operation with another piece length; the model itself has no such state)
\* route: library classes, the command line with explicit flags, or the command line reading a
\* configuration file (the parser and its defaults are process-lifetime objects too)
\* al: piece alignment requested (padding entries; only the v1 creator honours it) - the padding buffers of
\* the hasher are one more thing that must not survive from one create to the next
NotListed == <<-1, -1>>
Blocked(t) == link /\ t # "r/a"               \* the listing of t meets the dangling link
DirsOf(t) == CASE t = "r" -> {"r", "r/d"} [] t = "r/d" -> {"r/d"} [] OTHER -> {}
Create(t, v, pl, route, al) == /\ Step /\ TargetExists(t) /\ FreshListing(t) # {} /\ ~Blocked(t)
                /\ last' = [op |-> "create", want |-> FreshCreate(t),
                            got |-> IF cwd = "moved" \/ (Variant = "guardleak" /\ t \in stuck)
                                    THEN [kind |-> "error", files |-> {}, sizes |-> <<>>, gens |-> <<>>] ELSE ToolCreate(t)]
                /\ made' = (LET g == last'.got IN
                            IF g.kind = "meta"
                            THEN [made EXCEPT ![t] = [f \in Files |-> IF f \in g.files THEN <<g.sizes[f], g.gens[f]>> ELSE NotListed]]
                            ELSE made)
                /\ rc' = rc
                /\ memo' = Store(memo, t)
                /\ metas' = metas \cup {t}
                /\ hc' = (IF Variant = "statcache"
                          THEN [f \in Files |-> IF f \in FreshListing(t) /\ ~CacheHit(f)
                                                THEN [has |-> TRUE, size |-> fs[f], stamp |-> stamp[f], gen |-> gen[f]] ELSE hc[f]]
                          ELSE hc)
                /\ Log([op |-> "create", target |-> t, version |-> v, plen |-> pl, route |-> route, align |-> al])
                /\ UNCHANGED <<fs, gen, stamp, idx, cwd, link, stuck>>
\* a create that cannot succeed - the directory holds no file any more, or the single file is gone - fails the
\* same way in a fresh process and must leave nothing behind in this one (no cache entry, no changed working
\* directory: the operations that follow name their paths relative to it)
CreateFail(t, v) == /\ Step /\ (~TargetExists(t) \/ FreshListing(t) = {} \/ Blocked(t))
                    /\ stuck' = (IF Variant = "guardleak" /\ Blocked(t) THEN stuck \cup DirsOf(t) ELSE stuck)
                    /\ last' = [op |-> "createfail", got |-> "error", want |-> "error"]
                    /\ Log([op |-> "createfail", target |-> t, version |-> v])
                    /\ cwd' = (IF Variant = "cwdleak" /\ TargetExists(t) /\ v = 1 THEN "moved" ELSE cwd)
                    /\ UNCHANGED <<fs, gen, stamp, memo, hc, idx, metas, made, rc, link>>
\* the environment puts a dangling symbolic link into r/d / takes it away again
SetLink(b) == /\ Step /\ link # b /\ link' = b
              /\ last' = [op |-> "none", got |-> 0, want |-> 0]
              /\ Log([op |-> IF b THEN "addlink" ELSE "dellink"])
              /\ UNCHANGED <<fs, gen, stamp, memo, hc, idx, metas, cwd, made, rc, stuck>>
Mutate(kind, f) ==
    /\ Step
    /\ CASE kind = "add"     -> ~Present(f) /\ \E s \in 0 .. MaxSize : fs' = [fs EXCEPT ![f] = s] /\ gen' = gen
         [] kind = "delete"  -> Present(f) /\ fs' = [fs EXCEPT ![f] = Absent] /\ gen' = gen
         [] kind = "grow"    -> Present(f) /\ fs[f] < MaxSize /\ fs' = [fs EXCEPT ![f] = fs[f] + 1] /\ gen' = gen
         [] kind = "shrink"  -> Present(f) /\ fs[f] > 0 /\ fs' = [fs EXCEPT ![f] = fs[f] - 1] /\ gen' = gen
         [] kind = "rewrite" -> Present(f) /\ fs[f] > 0 /\ gen' = [gen EXCEPT ![f] = (gen[f] + 1) % 3] /\ fs' = fs
         \* rewritten in place (same inode, same length) and the modification time put back
         [] kind = "rewritekeep" -> Present(f) /\ fs[f] > 0 /\ gen' = [gen EXCEPT ![f] = (gen[f] + 1) % 3] /\ fs' = fs
    \* every mutation but the last kind leaves a new modification stamp (tracked only where it matters)
    /\ stamp' = (IF Variant = "statcache" /\ kind # "rewritekeep" THEN [stamp EXCEPT ![f] = (stamp[f] + 1) % 4] ELSE stamp)
    /\ last' = [op |-> "none", got |-> 0, want |-> 0]
    /\ Log([op |-> kind, file |-> PathOf(f), size |-> fs'[f]])
    /\ UNCHANGED <<memo, hc, idx, metas, cwd, made, rc, link, stuck>>
\* operations on an existing metafile: no process-lifetime state is involved
Use(kind, t) == /\ Step /\ t \in metas /\ (kind = "recheck" => TargetExists(t) \/ t # "r/a")
                /\ last' = [op |-> kind, got |-> 0, want |-> 0]
                /\ Log([op |-> kind, target |-> t])
                /\ UNCHANGED <<fs, gen, stamp, memo, hc, idx, metas, cwd, made, rc, link, stuck>>
\* rebuild searches the directories it is given: the content root itself ("own"), an empty directory,
\* a directory holding a copy of r/a only ("part"), or one holding same-named, same-sized files with OTHER content
\* ("decoy": every candidate is hashed and rejected, nothing is found); what it can find is what is there NOW
Avail(search) == CASE search = "own" -> {f \in Files : Present(f)}
                   [] search = "part" -> {f \in {"a"} : Present(f)}
                   [] OTHER -> {}
\* a candidate is PLACED when its length and its bytes are the ones the metafile records; the bytes the tool judges are
\* the ones on disk now - in the "rootcache" variant the ones its remembered root was computed from
RootHit(f) == Variant = "rootcache" /\ rc[f].has /\ rc[f].size = fs[f]
Judged(f) == IF RootHit(f) THEN rc[f].gen ELSE gen[f]
Rebuild(t, search) ==
    /\ Step /\ t \in metas
    /\ LET cands == IF Variant = "sharedindex" THEN Avail(search) \cup {f \in idx : Present(f)} ELSE Avail(search) IN
       last' = [op |-> "rebuild", want |-> {f \in Avail(search) : made[t][f] = <<fs[f], gen[f]>>},
                got |-> IF cwd = "moved" THEN {} ELSE {f \in cands : made[t][f] = <<fs[f], Judged(f)>>}]
    /\ idx' = (IF Variant = "sharedindex" THEN idx \cup Avail(search) ELSE idx)
    /\ rc' = (IF Variant = "rootcache"
              THEN [f \in Files |-> IF f \in Avail(search) /\ ~RootHit(f) THEN [has |-> TRUE, size |-> fs[f], gen |-> gen[f]] ELSE rc[f]]
              ELSE rc)
    /\ Log([op |-> "rebuild", target |-> t, search |-> search])
    /\ UNCHANGED <<fs, gen, stamp, memo, hc, metas, cwd, made, link, stuck>>

Init == /\ fs \in [Files -> {Absent, 1}] /\ gen = [f \in Files |-> 0] /\ stamp = [f \in Files |-> 0]
        /\ hc = [f \in Files |-> NoHash] /\ idx = {}
        /\ memo = [k \in {"r", "r/d", "r/a", "r/d/b", "r/d/c"} |-> NoEntry]
        /\ metas = {} /\ last = [op |-> "none", got |-> 0, want |-> 0] /\ nops = 0 /\ cwd = "base"
        /\ link = FALSE /\ stuck = {}
        /\ made = [t \in Targets |-> [f \in Files |-> NotListed]]
        /\ rc = [f \in Files |-> [has |-> FALSE, size |-> 0, gen |-> 0]]
        /\ hist = <<[op |-> "init", fs |-> fs]>>
Next == \/ \E t \in Targets, v \in 1 .. 3, pl \in 1 .. 2, rt \in {"lib", "cli", "clitracker", "cliconfig"}, al \in BOOLEAN :
              Create(t, v, pl, rt, al /\ v = 1)
        \/ \E t \in Targets, v \in 1 .. 3 : CreateFail(t, v)
        \/ \E b \in BOOLEAN : SetLink(b)
        \/ \E k \in {"add", "delete", "grow", "shrink", "rewrite", "rewritekeep"}, f \in Files : Mutate(k, f)
        \* ("magnetv": the same through the command line with -v, which configures logging for the rest of the process)
        \* ("editsame": an edit that leaves the metafile's length and time stamp as they were)
        \/ \E k \in {"recheck", "magnet", "magnetv", "edit", "editsame"}, t \in Targets : Use(k, t)
        \/ \E t \in Targets, se \in {"own", "empty", "part", "decoy"} : Rebuild(t, se)
Spec == Init /\ [][Next]_vars

\* C09: every create describes the current state exactly as a fresh process would
\* ... and every rebuild finds exactly what its search directories hold
ResultFresh == last.op \in {"create", "rebuild"} => last.got = last.want
Emit == nops = MaxOps => PrintT(<<"HIST", hist>>)
=============================================================================
