------------------------------- MODULE FsModel -------------------------------
(* Abstract filesystem used by EditFs (model checking) and TraceFs (trace      *)
(* validation).  A path is a role name ("M" the metafile, "T1".. temporaries,  *)
(* "O" an output file, ...).  A file's content is a class:                     *)
(*   "Absent" | "Empty" | "Partial" | "Old" | "New" | "Other"                  *)
(* fs.c[p] is what is on disk (what survives the death of the process);        *)
(* fs.pend[p] is data handed to a buffered writer and not yet flushed: it      *)
(* reaches the disk on close and is lost when the process dies before that.    *)
(* An operation is a record [kind, p, p2, d]: d = class of the data written.   *)
EXTENDS Core

Contents == {"Absent", "Empty", "Partial", "Old", "New", "Other"}
Get(m, p) == IF p \in DOMAIN m THEN m[p] ELSE "Absent"
Put(m, p, v) == [q \in (DOMAIN m) \cup {p} |-> IF q = p THEN v ELSE m[q]]
NoPend == "none"

EmptyFs(old) == [c |-> [p \in {"M"} |-> old], pend |-> [p \in {"M"} |-> NoPend]]

Apply(fs, op) ==
    LET p == op.p IN
    CASE op.kind = "open_trunc"  -> [c |-> Put(fs.c, p, "Empty"), pend |-> Put(fs.pend, p, NoPend)]
      [] op.kind = "open_excl"   -> [c |-> Put(fs.c, p, "Empty"), pend |-> Put(fs.pend, p, NoPend)]
      [] op.kind = "open_append" -> [c |-> Put(fs.c, p, IF Get(fs.c, p) = "Absent" THEN "Empty" ELSE Get(fs.c, p)),
                                     pend |-> Put(fs.pend, p, NoPend)]
      [] op.kind = "open_rw"     -> fs
      [] op.kind = "write"       -> [fs EXCEPT !.pend = Put(fs.pend, p,
                                        IF Get(fs.pend, p) = NoPend /\ Get(fs.c, p) = "Empty" THEN op.d ELSE "Other")]
      [] op.kind = "close"       -> IF Get(fs.pend, p) = NoPend THEN fs
                                    ELSE [c |-> Put(fs.c, p, Get(fs.pend, p)), pend |-> Put(fs.pend, p, NoPend)]
      [] op.kind = "remove"      -> [c |-> Put(fs.c, p, "Absent"), pend |-> Put(fs.pend, p, NoPend)]
      [] op.kind = "rename"      -> [c |-> Put(Put(fs.c, op.p2, Get(fs.c, p)), p, "Absent"),
                                     pend |-> Put(Put(fs.pend, op.p2, NoPend), p, NoPend)]
      [] op.kind = "copy"        -> [c |-> Put(fs.c, p, Get(fs.c, op.p2)), pend |-> Put(fs.pend, p, NoPend)]
      [] op.kind = "truncate"    -> [c |-> Put(fs.c, p, "Other"), pend |-> fs.pend]
      [] OTHER -> fs               \* mkdir, chmod, utime ... do not change file contents

\* a write that reached the disk only partly (k > 0 bytes flushed) / not at all
Torn(fs, op, k) == [c |-> Put(fs.c, op.p, IF k > 0 THEN "Partial" ELSE Get(fs.c, op.p)),
                    pend |-> Put(fs.pend, op.p, NoPend)]

RECURSIVE Replay(_, _)
Replay(fs, ops) == IF ops = <<>> THEN fs ELSE Replay(Apply(fs, Head(ops)), Tail(ops))

\* what a reader finds after the process died at this point
OnDisk(fs, p) == Get(fs.c, p)
Safe(fs) == OnDisk(fs, "M") \in {"Old", "New"}
RECURSIVE AllPrefixesSafe(_, _)
AllPrefixesSafe(fs, ops) == Safe(fs) /\ (ops = <<>> \/ AllPrefixesSafe(Apply(fs, Head(ops)), Tail(ops)))
=============================================================================
