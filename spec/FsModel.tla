------------------------------- MODULE FsModel -------------------------------
(* Abstract filesystem used by EditFs (model checking) and TraceFs (trace      *)
(* validation).  A path is a role name ("M" the metafile, "T1".. temporaries,  *)
(* "O" an output file, ...).  A file's content is a class:                     *)
(*   "Absent" | "Empty" | "Partial" | "Old" | "New" | "Other"                  *)
(* fs.c[p] is what is on disk (what survives the death of the process);        *)
(* fs.pend[p] is data handed to a buffered writer and not yet flushed: it      *)
(* reaches the disk on close and is lost when the process dies before that.    *)
(* An operation is a record [kind, p, p2, d]: d = class of the data written.   *)
EXTENDS Core

Contents == {"Absent", "Empty", "Partial", "Old", "New", "Other"}
Get(m, p) == IF p \in DOMAIN m THEN m[p] ELSE "Absent"
Put(m, p, v) == [q \in (DOMAIN m) \cup {p} |-> IF q = p THEN v ELSE m[q]]
NoPend == "none"

\* fs.sz[p]: length in bytes where it matters (files left behind by an earlier interrupted run):
\* writing n bytes at offset 0 of a file that is NOT truncated replaces it completely only when
\* it was not longer than n.  -1 = unknown / irrelevant.
GetSz(fs, p) == IF p \in DOMAIN fs.sz THEN fs.sz[p] ELSE -1
EmptyFs(old) == [c |-> [p \in {"M"} |-> old], pend |-> [p \in {"M"} |-> NoPend], sz |-> [p \in {"M"} |-> -1]]
\* a filesystem that already holds other files (leftovers of an earlier, interrupted operation):
\* init is a sequence of <<role, content class>>
RECURSIVE WithFiles(_, _)
WithFiles(fs, init) == IF init = <<>> THEN fs
                       ELSE WithFiles([c |-> Put(fs.c, Head(init)[1], Head(init)[2]),
                                       pend |-> Put(fs.pend, Head(init)[1], NoPend),
                                       sz |-> Put(fs.sz, Head(init)[1], Head(init)[3])], Tail(init))

Apply(fs, op) ==
    LET p == op.p
        Set(c2, pend2) == [c |-> c2, pend |-> pend2, sz |-> fs.sz]
    IN
    CASE op.kind = "open_trunc"  -> [c |-> Put(fs.c, p, "Empty"), pend |-> Put(fs.pend, p, NoPend), sz |-> Put(fs.sz, p, 0)]
      [] op.kind = "open_excl"   -> [c |-> Put(fs.c, p, "Empty"), pend |-> Put(fs.pend, p, NoPend), sz |-> Put(fs.sz, p, 0)]
      [] op.kind = "open_append" -> Set(Put(fs.c, p, IF Get(fs.c, p) = "Absent" THEN "Empty" ELSE Get(fs.c, p)),
                                        Put(fs.pend, p, NoPend))
      [] op.kind = "open_create" -> [c |-> Put(fs.c, p, IF Get(fs.c, p) = "Absent" THEN "Empty" ELSE Get(fs.c, p)),
                                     pend |-> Put(fs.pend, p, NoPend),
                                     sz |-> Put(fs.sz, p, IF Get(fs.c, p) = "Absent" THEN 0 ELSE GetSz(fs, p))]
      [] op.kind = "open_rw"     -> fs
      [] op.kind = "write"       ->
            \* data written at offset 0 of a freshly opened file: it becomes the whole content iff the
            \* file was empty or (known to be) not longer than the data
            LET whole == Get(fs.pend, p) = NoPend /\
                         (Get(fs.c, p) = "Empty" \/ (GetSz(fs, p) >= 0 /\ op.n >= 0 /\ GetSz(fs, p) <= op.n))
            IN Set(fs.c, Put(fs.pend, p, IF whole THEN op.d ELSE "Other"))
      [] op.kind = "dwrite"      ->   \* os.sendfile: straight to the file, nothing is buffered in the process
            IF op.n = 0 THEN fs
            ELSE LET whole == Get(fs.c, p) = "Empty" \/ (GetSz(fs, p) >= 0 /\ op.n >= 0 /\ GetSz(fs, p) <= op.n)
                 IN [c |-> Put(fs.c, p, IF whole THEN op.d ELSE "Other"), pend |-> Put(fs.pend, p, NoPend),
                     sz |-> Put(fs.sz, p, op.n)]
      [] op.kind = "close"       -> IF Get(fs.pend, p) = NoPend THEN fs
                                    ELSE Set(Put(fs.c, p, Get(fs.pend, p)), Put(fs.pend, p, NoPend))
      [] op.kind = "remove"      -> Set(Put(fs.c, p, "Absent"), Put(fs.pend, p, NoPend))
      [] op.kind = "rename"      -> IF p = op.p2 THEN fs ELSE      \* renaming a file onto itself changes nothing
                                    [c |-> Put(Put(fs.c, op.p2, Get(fs.c, p)), p, "Absent"),
                                     pend |-> Put(Put(fs.pend, op.p2, NoPend), p, NoPend),
                                     sz |-> Put(fs.sz, op.p2, GetSz(fs, p))]
      [] op.kind = "copy"        -> [c |-> Put(fs.c, p, Get(fs.c, op.p2)), pend |-> Put(fs.pend, p, NoPend),
                                     sz |-> Put(fs.sz, p, GetSz(fs, op.p2))]
      [] op.kind = "truncate"    -> Set(Put(fs.c, p, "Other"), fs.pend)
      [] OTHER -> fs               \* mkdir, chmod, utime ... do not change file contents

\* a write that reached the disk only partly (k > 0 bytes flushed) / not at all
Torn(fs, op, k) == [c |-> Put(fs.c, op.p, IF k > 0 THEN "Partial" ELSE Get(fs.c, op.p)),
                    pend |-> Put(fs.pend, op.p, NoPend), sz |-> fs.sz]

RECURSIVE Replay(_, _)
Replay(fs, ops) == IF ops = <<>> THEN fs ELSE Replay(Apply(fs, Head(ops)), Tail(ops))

\* what a reader finds after the process died at this point
OnDisk(fs, p) == Get(fs.c, p)
Safe(fs) == OnDisk(fs, "M") \in {"Old", "New"}
RECURSIVE AllPrefixesSafe(_, _)
AllPrefixesSafe(fs, ops) == Safe(fs) /\ (ops = <<>> \/ AllPrefixesSafe(Apply(fs, Head(ops)), Tail(ops)))
=============================================================================
