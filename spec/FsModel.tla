------------------------------- MODULE FsModel -------------------------------
(* Abstract filesystem used by EditFs (model checking) and TraceFs (trace      *)
(* validation).  A path is a role name ("M" the metafile, "T1".. temporaries,  *)
(* "O" an output file, ...).  A file's content is a class:                     *)
(*   "Absent" | "Empty" | "Partial" | "Old" | "New" | "Other"                  *)
(* fs.c[p] is what is on disk (what survives the death of the process);        *)
(* fs.pend[p] is data handed to a buffered writer and not yet flushed: it      *)
(* reaches the disk on close and is lost when the process dies before that.    *)
(* An operation is a record [kind, p, p2, d]: d = class of the data written.   *)
EXTENDS Core

Contents == {"Absent", "Empty", "Partial", "Old", "New", "Other"}
Get(m, p) == IF p \in DOMAIN m THEN m[p] ELSE "Absent"
Put(m, p, v) == [q \in (DOMAIN m) \cup {p} |-> IF q = p THEN v ELSE m[q]]
NoPend == "none"

\* fs.sz[p]: length in bytes where it matters (files left behind by an earlier interrupted run):
\* writing n bytes at offset 0 of a file that is NOT truncated replaces it completely only when
\* it was not longer than n.  -1 = unknown / irrelevant.
GetSz(fs, p) == IF p \in DOMAIN fs.sz THEN fs.sz[p] ELSE -1
\* fs.loc[h]: an open file is a handle named by the path it was opened as (that is how the log names
\* it); the file it writes to follows renames: loc[h] is the path under which that file is found NOW,
\* Gone when it has been unlinked or replaced (data flushed to it is lost).
Gone == "<gone>"
NoLoc == [h \in {} |-> ""]
Loc(fs, h) == IF "loc" \in DOMAIN fs /\ h \in DOMAIN fs.loc THEN fs.loc[h] ELSE h
LocOf(fs) == IF "loc" \in DOMAIN fs THEN fs.loc ELSE NoLoc
Move(loc, q, q2) == [h \in DOMAIN loc |-> IF loc[h] = q THEN q2 ELSE loc[h]]
EmptyFs(old) == [c |-> [p \in {"M"} |-> old], pend |-> [p \in {"M"} |-> NoPend], sz |-> [p \in {"M"} |-> -1], loc |-> NoLoc]
\* a filesystem that already holds other files (leftovers of an earlier, interrupted operation):
\* init is a sequence of <<role, content class>>
RECURSIVE WithFiles(_, _)
WithFiles(fs, init) == IF init = <<>> THEN fs
                       ELSE WithFiles([c |-> Put(fs.c, Head(init)[1], Head(init)[2]),
                                       pend |-> Put(fs.pend, Head(init)[1], NoPend),
                                       sz |-> Put(fs.sz, Head(init)[1], Head(init)[3]), loc |-> LocOf(fs)], Tail(init))

Apply(fs, op) ==
    LET p == op.p
        q == Loc(fs, p)                  \* where the file behind handle p is found now
        loc == LocOf(fs)
        Mk(c2, pend2, sz2, loc2) == [c |-> c2, pend |-> pend2, sz |-> sz2, loc |-> loc2]
        Set(c2, pend2) == Mk(c2, pend2, fs.sz, loc)
        Opened == Put(loc, p, p)
    IN
    CASE op.kind = "open_trunc"  -> Mk(Put(fs.c, p, "Empty"), Put(fs.pend, p, NoPend), Put(fs.sz, p, 0), Opened)
      [] op.kind = "open_excl"   -> Mk(Put(fs.c, p, "Empty"), Put(fs.pend, p, NoPend), Put(fs.sz, p, 0), Opened)
      [] op.kind = "open_append" -> Mk(Put(fs.c, p, IF Get(fs.c, p) = "Absent" THEN "Empty" ELSE Get(fs.c, p)),
                                       Put(fs.pend, p, NoPend), fs.sz, Opened)
      [] op.kind = "open_create" -> Mk(Put(fs.c, p, IF Get(fs.c, p) = "Absent" THEN "Empty" ELSE Get(fs.c, p)),
                                       Put(fs.pend, p, NoPend),
                                       Put(fs.sz, p, IF Get(fs.c, p) = "Absent" THEN 0 ELSE GetSz(fs, p)), Opened)
      [] op.kind = "open_rw"     -> fs
      [] op.kind = "write"       ->
            \* data written at offset 0 of a freshly opened file: it becomes the whole content iff the
            \* file was empty or (known to be) not longer than the data
            \* a streamed encoder writes the content in many chunks: a write that follows a pending prefix ("Partial")
            \* continues it - to a longer prefix or to the complete content, as the harness names it
            LET whole == Get(fs.pend, p) = NoPend /\
                         (Get(fs.c, q) = "Empty" \/ (GetSz(fs, q) >= 0 /\ op.n >= 0 /\ GetSz(fs, q) <= op.n))
                cont == Get(fs.pend, p) = "Partial" /\ op.d \in {"New", "Partial"}
            IN Set(fs.c, Put(fs.pend, p, IF whole \/ cont THEN op.d ELSE "Other"))
      [] op.kind = "dwrite"      ->   \* os.sendfile: straight to the file, nothing is buffered in the process
            IF op.n = 0 \/ q = Gone THEN fs
            ELSE LET whole == Get(fs.c, q) = "Empty" \/ (GetSz(fs, q) >= 0 /\ op.n >= 0 /\ GetSz(fs, q) <= op.n)
                 IN Mk(Put(fs.c, q, IF whole THEN op.d ELSE "Other"), Put(fs.pend, p, NoPend), Put(fs.sz, q, op.n), loc)
      [] op.kind = "close"       -> IF Get(fs.pend, p) = NoPend THEN fs
                                    ELSE IF q = Gone THEN Set(fs.c, Put(fs.pend, p, NoPend))
                                    ELSE Set(Put(fs.c, q, Get(fs.pend, p)), Put(fs.pend, p, NoPend))
      \* unlinking a name: handles on that file keep it alive, nameless (what they flush is lost)
      [] op.kind = "remove"      -> Mk(Put(fs.c, p, "Absent"), fs.pend, fs.sz, Move(loc, p, Gone))
      [] op.kind = "rename"      -> IF p = op.p2 THEN fs ELSE      \* renaming a file onto itself changes nothing
                                    \* handles on the replaced file lose it, handles on the renamed file follow it
                                    Mk(Put(Put(fs.c, op.p2, Get(fs.c, p)), p, "Absent"), fs.pend,
                                       Put(fs.sz, op.p2, GetSz(fs, p)), Move(Move(loc, op.p2, Gone), p, op.p2))
      [] op.kind = "copy"        -> Mk(Put(fs.c, p, Get(fs.c, op.p2)), Put(fs.pend, p, NoPend),
                                       Put(fs.sz, p, GetSz(fs, op.p2)), loc)
      [] op.kind = "truncate"    -> Set(Put(fs.c, p, "Other"), fs.pend)
      [] OTHER -> fs               \* mkdir, chmod, utime ... do not change file contents

\* a write that reached the disk only partly (k > 0 bytes flushed) / not at all
Torn(fs, op, k) == LET q == Loc(fs, op.p) IN
                   [c |-> IF q = Gone THEN fs.c ELSE Put(fs.c, q, IF k > 0 THEN "Partial" ELSE Get(fs.c, q)),
                    pend |-> Put(fs.pend, op.p, NoPend), sz |-> fs.sz, loc |-> LocOf(fs)]

RECURSIVE Replay(_, _)
Replay(fs, ops) == IF ops = <<>> THEN fs ELSE Replay(Apply(fs, Head(ops)), Tail(ops))

\* what a reader finds after the process died at this point
OnDisk(fs, p) == Get(fs.c, p)
Safe(fs) == OnDisk(fs, "M") \in {"Old", "New"}
RECURSIVE AllPrefixesSafe(_, _)
AllPrefixesSafe(fs, ops) == Safe(fs) /\ (ops = <<>> \/ AllPrefixesSafe(Apply(fs, Head(ops)), Tail(ops)))
=============================================================================
