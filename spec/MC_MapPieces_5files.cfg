SPECIFICATION Spec
CONSTANTS
  MaxFiles = 5
  MaxSize = 4
  PieceLens = {2, 3}
  Variant = "fixed"
INVARIANT MapCorrect
INVARIANT AllFilesMapped
CHECK_DEADLOCK FALSE
