----------------------------- MODULE TraceRecheck -----------------------------
(* Trace specification for recheck (C04, C05, C16).  A record is one run of    *)
(* the real Checker (library: iter_hashes() stream + results(); CLI: the       *)
(* returned percentage) on a payload whose damage is known by construction.    *)
(* TLC recomputes the reference verdict stream from (recorded lengths, kinds,  *)
(* disk state, P) with RecheckRef and compares.  ppm = percentage * 10^6.      *)
EXTENDS Core, RecheckRef, TLC, Json, IOUtils

Recs == ndJsonDeserialize(IOEnv.TRACE_FILE)
\* the implementation-shaped models, instantiated at the real piece length: what THEY predict the code
\* yields, step for step (clause M16.impl binds them to the code; it is not a property verdict)
FC == INSTANCE FeedChecker WITH MaxFiles <- 0, MaxSize <- 0, PieceLens <- {}, Variant <- "fixed", WithPads <- TRUE, st <- 0
HC == INSTANCE HashChecker WITH MaxFiles <- 0, MaxSize <- 0, PieceLens <- {}, Variant <- "fixed", st <- 0
VARIABLES i, grp
vars == <<i, grp>>

Disk(r) == [f \in DOMAIN r.disk |-> [present |-> r.disk[f].present, len |-> r.disk[f].len,
                                     flips |-> SeqToSet(r.disk[f].flips)]]
Ref(r) == IF r.version = 1 THEN V1Verdicts(r.recs, r.kinds, Disk(r), r.P)
          ELSE V2Verdicts(r.recs, Disk(r), r.P)
IsIntact(r) == Intact(r.recs, r.kinds, Disk(r))
Got(r) == [k \in DOMAIN r.stream |-> <<r.stream[k][1], r.stream[k][2]>>]
Abs(x) == IF x < 0 THEN -x ELSE x
Failed(r) == r.status # "ok"
InGrp(r) == grp.n > 0 /\ grp.id = r.group

Fuel(r) == 4 * (Len(r.recs) + CeilDiv(Total(r.recs), r.P)) + 20
ImplStream(r) == IF r.version = 1
                 THEN FC!Run(FC!InitSt(r.recs, r.kinds, Disk(r), r.P), Fuel(r)).out
                 ELSE HC!Run(HC!InitSt(r.recs, Disk(r), r.P), Fuel(r)).out
\* the content-root search (FindRoot.tla) on the recorded world: r.world = [files, dirs] (sequences of paths)
FR == INSTANCE FindRoot WITH Variant <- "fixed", w <- 0, done <- 0
FrFs(r) == [files |-> SeqToSet(r.world.files), dirs |-> SeqToSet(r.world.dirs)]
\* protocol records (behaviours of CheckerProto.tla replayed into one Checker object): r.truth is what is on
\* disk at the moment results() was asked - one <<verifies, size>> per piece
Truth(r) == [k \in DOMAIN r.truth |-> <<r.truth[k][1], r.truth[k][2]>>]
Clause(r, c) ==
  CASE c = "C16.proto" -> ~Failed(r) /\ Abs(r.ppm - SharePpm(Truth(r))) <= 1
    [] c = "M16.impl" -> Failed(r) \/ r.nostream \/ Got(r) = ImplStream(r)
    [] c = "C16.stream" -> ~Failed(r) /\ (r.nostream \/ Got(r) = Ref(r))
    [] c = "C16.total"  -> ~Failed(r) /\ (r.nostream \/ ConsumedBytes(Got(r)) = Total(r.recs))
    [] c = "C16.ppm"    -> ~Failed(r) /\ Abs(r.ppm - SharePpm(Ref(r))) <= 1 /\ r.ppm2 = r.ppm
    [] c = "C04.lt100"  -> IsIntact(r) \/ Failed(r) \/ (r.ppm < 100000000 /\ r.ppm2 < 100000000)
    [] c = "C05.hundred" -> ~IsIntact(r) \/ (~Failed(r) /\ r.ppm = 100000000 /\ r.ppm2 = 100000000)
    \* the real find_root returns what the model computes for this world, and that is the payload root
    [] c = "M05.findroot" -> r.got = FR!FindRoot(FrFs(r), r.fmeta, r.path)
    [] c = "C05.findroot" -> ~Failed(r) /\ r.ppm = 100000000
    [] c = "C05.rootparent" -> ~InGrp(r) \/ (r.status = grp.status /\ r.ppm = grp.ppm)
    [] OTHER -> FALSE

Report(r) == \A k \in DOMAIN r.clauses :
                IF Clause(r, r.clauses[k]) THEN TRUE ELSE PrintT(<<"FAIL", r.id, r.clauses[k]>>)

NoGrp == [n |-> 0, id |-> "none", status |-> "", ppm |-> 0]
NewGrp(r) == IF r.group = "none" THEN NoGrp
             ELSE IF InGrp(r) THEN grp
             ELSE [n |-> 1, id |-> r.group, status |-> r.status, ppm |-> r.ppm]
Init == i = 0 /\ grp = NoGrp
Next == /\ i < Len(Recs)
        /\ LET r == Recs[i + 1] IN Report(r) /\ grp' = NewGrp(r)
        /\ i' = i + 1
Spec == Init /\ [][Next]_vars
AllConsumed == TLCGet("stats").diameter = Len(Recs) + 1
=============================================================================
