---------------------------- MODULE CheckerProto ----------------------------
(* C16 / C04 / C05 at the level of the PROTOCOL of recheck.Checker: one        *)
(* Checker object, any number of walks over its pieces - iter_hashes()         *)
(* generators that are advanced one piece at a time and may be given up at     *)
(* any point - and calls of results(), which itself runs a complete walk and   *)
(* returns the stored figure.  The figure must be the exact share of the       *)
(* payload that verifies, whatever happened to the object before.              *)
(*   Variant "fixed"    : the code - the byte counters are LOCAL to each walk  *)
(*                        (`matched = consumed = 0` in iter_hashes), the       *)
(*                        figure is stored when a walk runs to its end         *)
(*   Variant "instance" : seed R15-C16 - the counters live on the object and   *)
(*                        are reset at the END of a walk, so a walk given up   *)
(*                        half way leaks into the next one                     *)
(*   Variant "cached"   : results() returns a stored figure without walking    *)
(*                        again (fine for one object and unchanged content -   *)
(*                        wrong once the content changed in between)           *)
(* The payload is a sequence of pieces <<size, ok>>; the environment may       *)
(* repair or damage a piece between calls (content is not frozen).             *)
EXTENDS Core, TLC
CONSTANTS Variant, MaxPieces, MaxCalls

Sizes == {1, 2}
VARIABLES pieces,      \* what is on disk now: sequence of [size, ok]
          walks,       \* open generators: sequence of [pos, matched, consumed, live]
          inst,        \* counters kept on the object ("instance" variant): [matched, consumed]
          stored,      \* Checker._result: -1 = nothing stored yet, else <<matched, consumed>>
          last,        \* observable result of the last results() call, as <<matched, consumed>>
          want,        \* what it must have been
          calls,
          hist         \* history variable (hidden by VIEW): the operations so far, for replay into the real Checker
vars == <<pieces, walks, inst, stored, last, want, calls, hist>>
View == <<pieces, walks, inst, stored, last, want, calls>>

Total(ps) == SumSeq([k \in DOMAIN ps |-> ps[k].size])
Good(ps) == SumSeq([k \in DOMAIN ps |-> IF ps[k].ok THEN ps[k].size ELSE 0])
Share(ps) == <<Good(ps), Total(ps)>>
None == <<-1, -1>>
Step == calls < MaxCalls /\ calls' = calls + 1
Log(op) == hist' = Append(hist, op)

\* iter_hashes(): a new generator; nothing runs until it is advanced
Open == /\ Step /\ Len(walks) < 2
        /\ walks' = Append(walks, [pos |-> 0, matched |-> 0, consumed |-> 0, live |-> TRUE])
        /\ Log([op |-> "open", g |-> Len(walks) + 1])
        /\ UNCHANGED <<pieces, inst, stored, last, want>>
\* next(g): one piece; running off the end stores the figure (and, in the "instance" variant, resets the counters)
Advance(g) ==
    /\ Step /\ g \in DOMAIN walks /\ walks[g].live
    /\ LET w == walks[g] IN
       IF w.pos < Len(pieces)
       THEN LET p == pieces[w.pos + 1]
                add == IF p.ok THEN p.size ELSE 0
            IN /\ walks' = [walks EXCEPT ![g] = [w EXCEPT !.pos = w.pos + 1, !.matched = w.matched + add,
                                                          !.consumed = w.consumed + p.size]]
               /\ inst' = (IF Variant = "instance" THEN [matched |-> inst.matched + add, consumed |-> inst.consumed + p.size] ELSE inst)
               /\ UNCHANGED stored
       ELSE /\ walks' = [walks EXCEPT ![g] = [w EXCEPT !.live = FALSE]]
            /\ stored' = (IF Variant = "instance" THEN <<inst.matched, inst.consumed>> ELSE <<w.matched, w.consumed>>)
            /\ inst' = (IF Variant = "instance" THEN [matched |-> 0, consumed |-> 0] ELSE inst)
    /\ Log([op |-> "advance", g |-> g])
    /\ UNCHANGED <<pieces, last, want>>
\* the generator is dropped / closed: its frame is gone, nothing else happens
Abandon(g) == /\ Step /\ g \in DOMAIN walks /\ walks[g].live
              /\ walks' = [walks EXCEPT ![g] = [@ EXCEPT !.live = FALSE]]
              /\ Log([op |-> "abandon", g |-> g])
              /\ UNCHANGED <<pieces, inst, stored, last, want>>
\* results(): a complete walk of its own, then the stored figure
FullWalk(m0, c0) == <<m0 + Good(pieces), c0 + Total(pieces)>>
Results ==
    /\ Step
    /\ LET fig == IF Variant = "cached" /\ stored # None THEN stored
                  ELSE IF Variant = "instance" THEN FullWalk(inst.matched, inst.consumed)
                  ELSE FullWalk(0, 0)
       IN /\ last' = fig /\ stored' = fig
          /\ inst' = (IF Variant = "instance" THEN [matched |-> 0, consumed |-> 0] ELSE inst)
    /\ want' = Share(pieces)
    /\ Log([op |-> "results", g |-> 0])
    /\ UNCHANGED <<pieces, walks>>
\* the environment changes the content between calls (a piece is damaged or repaired)
Flip(k) == /\ Step /\ k \in DOMAIN pieces
           /\ pieces' = [pieces EXCEPT ![k] = [@ EXCEPT !.ok = ~@]]
           /\ Log([op |-> "flip", g |-> k])
           /\ UNCHANGED <<walks, inst, stored, last, want>>

Init == /\ \E n \in 1 .. MaxPieces : pieces \in [1 .. n -> [size : Sizes, ok : BOOLEAN]]
        /\ walks = <<>> /\ inst = [matched |-> 0, consumed |-> 0] /\ stored = None /\ last = None /\ want = None /\ calls = 0
        /\ hist = <<[op |-> "init", g |-> Len(pieces)]>> \o [k \in DOMAIN pieces |-> [op |-> IF pieces[k].ok THEN "ok" ELSE "bad", g |-> k]]
Next == Open \/ Results \/ (\E g \in 1 .. 2 : Advance(g) \/ Abandon(g)) \/ (\E k \in 1 .. MaxPieces : Flip(k))
Spec == Init /\ [][Next]_vars

\* C16: the figure is the exact share, as a ratio (cross-multiplied: no division)
Exact == last = None \/ last[1] * want[2] = want[1] * last[2]
\* C05 / C04 as corollaries: 100 % exactly for intact content
Hundred == last = None \/ ((last[1] = last[2]) <=> (want[1] = want[2]))
\* a generator that ran to its end has seen every piece once
\* emission of behaviours for replay (Sim_CheckerProto.cfg, -simulate)
Emit == calls = MaxCalls => PrintT(<<"PHIST", hist>>)
WalkSound == \A g \in DOMAIN walks : walks[g].consumed <= Total(pieces) + 2 * MaxCalls
=============================================================================
