SPECIFICATION Spec
CONSTANTS
  Variant = "fixed"
  MaxGroups = 6
INVARIANT CliRefines
INVARIANT ConfigRefines
INVARIANT KeywordRefines
CHECK_DEADLOCK FALSE
