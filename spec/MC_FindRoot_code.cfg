SPECIFICATION Spec
CONSTANT Variant = "code"
INVARIANT FromRoot
INVARIANT FromParent
CHECK_DEADLOCK FALSE
