SPECIFICATION Spec
CONSTANTS
  Variant = "fixed"
  AllowPartialFirst = FALSE
  MaxFiles = 3
  MaxSize = 3
  P = 2
  Classes = {"intact", "decoy_all", "decoy_some", "decoy_head", "longer"}
INVARIANT Safe
INVARIANT CompleteRun
INVARIANT ClosureAgrees
INVARIANT V2Safe
INVARIANT V2Complete
CHECK_DEADLOCK FALSE
