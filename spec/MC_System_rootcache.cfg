SPECIFICATION Spec
CONSTANTS
  Variant = "rootcache"
  MaxOps = 4
  MaxSize = 2
VIEW View
INVARIANT ResultFresh
CHECK_DEADLOCK FALSE
