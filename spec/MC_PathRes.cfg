SPECIFICATION Spec
CONSTANT Variant = "fixed"
INVARIANT Safe
INVARIANT ResolvedTarget
INVARIANT Benign
CHECK_DEADLOCK FALSE
