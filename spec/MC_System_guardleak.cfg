SPECIFICATION Spec
CONSTANTS
  Variant = "guardleak"
  MaxOps = 4
  MaxSize = 2
VIEW View
INVARIANT ResultFresh
CHECK_DEADLOCK FALSE
