SPECIFICATION Spec
CONSTANTS
  Variant = "nocheck"
  MaxEntries = 4
INVARIANT OutsideUntouched
INVARIANT PlacedAsModelled
INVARIANT RollbackClean
CHECK_DEADLOCK FALSE
