SPECIFICATION Spec
CONSTANTS
  Variant = "fixed"
  MaxGroups = 3
INVARIANT EmitArgv
CONSTRAINT AtStart
CHECK_DEADLOCK FALSE
