SPECIFICATION Spec
CONSTANTS
  MaxFiles = 4
  MaxSize = 3
  PieceLens = {2}
  Variant = "fixed"
  WithPads = FALSE
INVARIANT StreamCorrect
INVARIANT TotalCorrect
INVARIANT Hundred
INVARIANT Bounded
INVARIANT RefFormsAgree
CHECK_DEADLOCK FALSE
