SPECIFICATION Spec
CONSTANTS
  Variant = "code"
  MaxEdits = 1
  MaxLayers = 2
  Entries = {"lib", "cli"}
  MaxNamed = 2
  AllCreates = FALSE
VIEW View



PROPERTY EditRefines
CHECK_DEADLOCK FALSE
