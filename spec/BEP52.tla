------------------------------- MODULE BEP52 -------------------------------
(* Reference layer: the BEP 52 per-file merkle tree, in the descriptor domain. *)
(* Every SHA-256 value that can legitimately occur for one file is a node of   *)
(* the infinite zero-padded merkle tree over its B-byte blocks:                *)
(*   <<"N", f, h, i>>  node at height h, index i, of file f (covers blocks     *)
(*                     i*2^h .. (i+1)*2^h - 1), at least one real block;       *)
(*   <<"Z", 0, h, 0>>  the all-padding node of height h (Z(0) = 32 zero bytes, *)
(*                     Z(h+1) = H(Z(h) || Z(h)));                              *)
(*   <<"?", 0, 0, 0>>  anything else.                                          *)
(* Two formulations are given and model-checked equal (MC_BEP52.cfg):          *)
(* the closed form RefRoot/RefLayer and the bottom-up construction.            *)
EXTENDS Core
CONSTANT B                          \* block size: 16384 in the real world

Unknown == <<"?", 0, 0, 0>>
Z(h) == <<"Z", 0, h, 0>>
N(f, h, i) == <<"N", f, h, i>>

NBlocks(size) == CeilDiv(size, B)
HP(P) == CeilLog2(P \div B)         \* height of the piece layer
RootHeight(size, P) == IF size <= P THEN CeilLog2(NBlocks(size))
                       ELSE HP(P) + CeilLog2(CeilDiv(size, P))

(* closed form ------------------------------------------------------------- *)
RefRoot(f, size, P) == N(f, RootHeight(size, P), 0)
InLayers(size, P) == size > P
RefLayer(f, size, P) == IF InLayers(size, P)
                        THEN [i \in 1 .. CeilDiv(size, P) |-> N(f, HP(P), i - 1)]
                        ELSE <<>>

(* the node of file f (size bytes) at height h, index i, normalised ---------- *)
Node(f, size, h, i) == IF i * Pow2(h) >= NBlocks(size) THEN Z(h) ELSE N(f, h, i)

(* hashing two 32-byte values together ---------------------------------------- *)
Merge(f, size, x, y) ==
    IF x[1] = "N" /\ y[1] = "N"
    THEN IF x[2] = f /\ y[2] = f /\ x[3] = y[3] /\ x[4] % 2 = 0 /\ y[4] = x[4] + 1
         THEN N(f, x[3] + 1, x[4] \div 2) ELSE Unknown
    ELSE IF x[1] = "N" /\ y[1] = "Z"
    THEN IF x[2] = f /\ x[3] = y[3] /\ x[4] % 2 = 0 /\ Node(f, size, x[3], x[4] + 1) = y
         THEN N(f, x[3] + 1, x[4] \div 2) ELSE Unknown
    ELSE IF x[1] = "Z" /\ y[1] = "Z"
    THEN IF x[3] = y[3] THEN Z(x[3] + 1) ELSE Unknown
    ELSE Unknown

RECURSIVE Pairs(_, _, _)
Pairs(f, size, s) == IF Len(s) < 2 THEN <<>>          \* zip(): an odd tail is dropped
                     ELSE <<Merge(f, size, s[1], s[2])>> \o Pairs(f, size, SubSeq(s, 3, Len(s)))
RECURSIVE MerkleRoot(_, _, _)
MerkleRoot(f, size, s) == IF Len(s) = 1 THEN s[1] ELSE MerkleRoot(f, size, Pairs(f, size, s))

(* bottom-up formulation (what BEP 52 literally says) ------------------------ *)
Leaves(f, size, from, n) == [j \in 1 .. n |-> Node(f, size, 0, from + j - 1)]
RootBottomUp(f, size, P) ==
    IF size <= P
    THEN MerkleRoot(f, size, Leaves(f, size, 0, NextPow2(NBlocks(size))))
    ELSE LET bpp == P \div B
             np  == CeilDiv(size, P)
             pcs == [k \in 1 .. NextPow2(np) |->
                        IF k <= np THEN MerkleRoot(f, size, Leaves(f, size, (k - 1) * bpp, bpp))
                        ELSE Z(HP(P))]
         IN MerkleRoot(f, size, pcs)
LayerBottomUp(f, size, P) ==
    IF size <= P THEN <<>>
    ELSE LET bpp == P \div B
         IN [k \in 1 .. CeilDiv(size, P) |->
                MerkleRoot(f, size, Leaves(f, size, (k - 1) * bpp, bpp))]
=============================================================================
