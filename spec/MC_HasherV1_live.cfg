SPECIFICATION FairSpec
CONSTANTS
  MaxFiles = 3
  MaxSize = 9
  PieceLens = {2, 4}
  Aligns = {FALSE, TRUE}
  Variant = "fixed"
CHECK_DEADLOCK FALSE
PROPERTY Terminates
