SPECIFICATION Spec
CONSTANT Variant = "code"
INVARIANT Refines
INVARIANT NeverEmpty
CHECK_DEADLOCK FALSE
