SPECIFICATION Spec
CONSTANT Variant = "fixed"
INVARIANT Refines
INVARIANT NeverEmpty
CHECK_DEADLOCK FALSE
