SPECIFICATION Spec
CONSTANTS
  Variant = "fixed"
  MaxPieces = 4
  MaxCalls = 9
INVARIANT Emit
CHECK_DEADLOCK FALSE
