SPECIFICATION Spec
CONSTANTS
  Variant = "nosort"
  Trees <- MCTrees
INVARIANT OrderIndependent
INVARIANT Complete
CHECK_DEADLOCK FALSE
