SPECIFICATION Spec
CONSTANTS
  MaxFiles = 4
  MaxSize = 6
  PieceLens = {2, 4}
  Aligns = {FALSE, TRUE}
  Variant = "fixed"
INVARIANT TypeOK
INVARIANT PlainCorrect
INVARIANT AlignedCorrect
INVARIANT AssembleCorrect
INVARIANT ClosureAgrees
CHECK_DEADLOCK FALSE
