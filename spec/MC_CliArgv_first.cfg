SPECIFICATION Spec
CONSTANTS
  Variant = "first"
  MaxGroups = 3
INVARIANT ArgvRefines
CHECK_DEADLOCK FALSE
