----------------------------- MODULE MagnetOps -----------------------------
(* C11: what a magnet URI must carry, as a function of the symbolic metafile   *)
(* and the version request, and the implementation-shaped magnet() of          *)
(* commands.py.                                                                *)
(* Symbolic metafile: [v1 |-> info has "pieces", v2 |-> info has "meta         *)
(* version", name, announce ("none" or a URL), tiers (<<"-">> or <<"+", tier,  *)
(* ...>>), seeds (<<"-">>, <<"list", url, ...>> or <<"str", url>> - BEP 19     *)
(* allows a bare string)].  URLs / names are opaque values (hex text in        *)
(* traces).  A bare string is modelled as the sequence of its characters       *)
(* <<"str", c1, c2, ...>> in model checking so that "iterated per character"   *)
(* is expressible.  A web-seed URL is therefore a SEQUENCE (of characters in   *)
(* model checking, of one hex chunk in traces): <<"list", url, ...>> holds     *)
(* such sequences, <<"str", x1, ...>> is the one URL <<x1, ...>>.              *)
EXTENDS Core

(* ---- reference ------------------------------------------------------------------- *)
\* which exact-topic parameters, in order: "btih" = SHA-1 of the raw info span, "btmh" = 1220 + SHA-256
CanSatisfy(m, req) == CASE req = 0 -> m.v1 \/ m.v2
                        [] req = 1 -> m.v1
                        [] req = 2 -> m.v2
                        [] req = 3 -> m.v1 /\ m.v2
Xt(m, req) == (IF m.v1 /\ req \in {0, 1, 3} THEN <<"btih">> ELSE <<>>)
              \o (IF m.v2 /\ req \in {0, 2, 3} THEN <<"btmh">> ELSE <<>>)
Flatten(tiers) == FlattenSeq(Tail(tiers))
Trackers(m) == IF m.tiers[1] = "+" THEN Flatten(m.tiers)
               ELSE IF m.announce # "none" THEN <<m.announce>> ELSE <<>>
Seeds(m) == IF m.seeds[1] = "-" THEN <<>>
            ELSE IF m.seeds[1] = "list" THEN Tail(m.seeds)
            ELSE <<Tail(m.seeds)>>                      \* one URL (the whole string)
Ref(m, req) == [xt |-> Xt(m, req), dn |-> <<m.name>>, tr |-> Trackers(m), ws |-> Seeds(m)]

=============================================================================
