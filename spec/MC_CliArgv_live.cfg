SPECIFICATION FairSpec
CONSTANTS
  Variant = "fixed"
  MaxGroups = 3
CHECK_DEADLOCK FALSE
PROPERTY Terminates
