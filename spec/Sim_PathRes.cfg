SPECIFICATION Spec
CONSTANT Variant = "fixed"
INVARIANT EmitWorld
CHECK_DEADLOCK FALSE
