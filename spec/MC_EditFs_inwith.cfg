SPECIFICATION Spec
CONSTANT Variant = "inwith"
INVARIANT NeverLost
INVARIANT ErrorLeavesComplete
INVARIANT DoneIsNew
CHECK_DEADLOCK FALSE
