----------------------------- MODULE HasherV2 -----------------------------
(* Implementation-shaped model of the three BEP 52 hashers of                  *)
(* torrentfile.hasher: HasherV2 ("V2"), HasherHybrid ("HY") and FileHasher     *)
(* without / with the hybrid flag ("FH" / "FHh"), in the descriptor domain of  *)
(* module BEP52.  One Step per iteration of the per-piece loop                 *)
(* (process_file's `while True` / one FileHasher.__next__ call), plus the      *)
(* final _calculate_root.  The file is file number 1.                          *)
EXTENDS Core, BEP52
CONSTANTS MaxPieces, PieceLens, Classes, Variant

Hybrid(cls) == cls \in {"HY", "FHh"}

InitSt(cls, size, P) ==
    [pc |-> "piece", cls |-> cls, size |-> size, P |-> P, pos |-> 0, layers |-> <<>>,
     pieces |-> <<>>, padding |-> 0, root |-> Unknown, layer |-> <<>>, end |-> FALSE,
     yields |-> <<>>]

ZeroPiece(P) == MerkleRoot(1, 0, [j \in 1 .. (P \div B) |-> Z(0)])   \* merkle_root(pad_piece)

CalcRoot(st) ==                        \* _calculate_root (identical in the three classes)
    LET n == Len(st.layers)
        padded == IF n > 1 /\ Variant # "m_nopadlayers"
                  THEN st.layers \o [j \in 1 .. (NextPow2(n) - n) |-> ZeroPiece(st.P)]
                  ELSE st.layers
    IN [st EXCEPT !.layer = st.layers,
                  !.root = IF n = 0 THEN Unknown ELSE MerkleRoot(1, st.size, padded),
                  !.pc = "done"]

Step(st) ==
  LET amount == st.P \div B
      nb == Min(amount, NBlocks(st.size) - st.pos)
      total == Min(st.P, st.size - st.pos * B)
  IN
  IF st.pc = "piece" THEN
      IF nb <= 0 THEN CalcRoot(st)                        \* `if not blocks: break`
      ELSE
        LET real == [j \in 1 .. nb |-> N(1, 0, st.pos + j - 1)]
            remaining == IF st.layers = <<>> /\ Variant # "m_padfirst"
                         THEN NextPow2(nb) - nb ELSE amount - nb
            blocks == IF nb # amount THEN real \o [j \in 1 .. remaining |-> Z(0)] ELSE real
            lh == MerkleRoot(1, st.size, blocks)
            plength == st.P - total
            piece == <<"S", st.pos * B, total, plength>>
            st1 == [st EXCEPT !.pos = st.pos + nb, !.layers = Append(st.layers, lh)]
            st2 == IF Hybrid(st.cls)
                   THEN [st1 EXCEPT !.pieces = Append(st.pieces, piece),
                                    !.padding = IF plength > 0 THEN plength ELSE st.padding]
                   ELSE st1
            st3 == [st2 EXCEPT !.yields = Append(st.yields,
                                   IF Hybrid(st.cls) THEN <<lh, piece>> ELSE <<lh>>)]
        IN IF st.cls \in {"FH", "FHh"} /\ nb # amount
           THEN CalcRoot([st3 EXCEPT !.end = TRUE])       \* EOF seen inside this piece
           ELSE st3
  ELSE st

RECURSIVE Run(_)
Run(st) == IF st.pc = "done" THEN st ELSE Run(Step(st))
Result(cls, size, P) == LET r == Run(InitSt(cls, size, P))
                        IN [root |-> r.root, layer |-> r.layer, pieces |-> r.pieces,
                            padding |-> r.padding]

(* ---- references ---------------------------------------------------------- *)
RefPiecesPadded(size, P) == [j \in 1 .. CeilDiv(size, P) |->
                               LET len == Min(P, size - (j - 1) * P)
                               IN <<"S", (j - 1) * P, len, P - len>>]
RefHasherLayer(size, P) == IF size > P THEN RefLayer(1, size, P) ELSE <<RefRoot(1, size, P)>>

(* ---- model checking ------------------------------------------------------- *)
VARIABLE st
Init == \E cls \in Classes, P \in PieceLens : \E size \in 1 .. (MaxPieces * P + 1) :
            st = InitSt(cls, size, P)
Next == st.pc # "done" /\ st' = Step(st)
Spec == Init /\ [][Next]_st
\* liveness: the iteration ends for every input (weak fairness = the caller keeps calling next())
FairSpec == Spec /\ WF_st(Next)
Terminates == <>(st.pc = "done")

\* C02: root and piece layer are those of BEP 52
RootCorrect  == st.pc = "done" => st.root = RefRoot(1, st.size, st.P)
LayerCorrect == st.pc = "done" => st.layer = RefHasherLayer(st.size, st.P)
\* the two formulations of the reference agree (closed form vs. bottom-up)
RefAgree == /\ RootBottomUp(1, st.size, st.P) = RefRoot(1, st.size, st.P)
            /\ LayerBottomUp(1, st.size, st.P) = RefLayer(1, st.size, st.P)
\* C03 (hasher half): v1 pieces of a hybrid are file-local, zero-extended to P
PiecesCorrect == (st.pc = "done" /\ Hybrid(st.cls)) =>
                    /\ st.pieces = RefPiecesPadded(st.size, st.P)
                    /\ st.padding = PadGap(st.size, st.P)
\* C10: every hasher agrees with every other one on the same file
AllAgree == st.pc = "done" =>
    \A c2 \in Classes :
        LET r2 == Result(c2, st.size, st.P) IN
        /\ r2.root = st.root /\ r2.layer = st.layer
        /\ (Hybrid(c2) /\ Hybrid(st.cls)) => (r2.pieces = st.pieces /\ r2.padding = st.padding)
NoUnknown == st.pc = "done" => \A i \in DOMAIN st.layers : st.layers[i] # Unknown
=============================================================================
