SPECIFICATION Spec
CONSTANTS
  MaxFiles = 2
  MaxSize = 7
  PieceLens = {3}
  Variant = "fixed"
  WithPads = FALSE
INVARIANT StreamCorrect
INVARIANT TotalCorrect
INVARIANT Hundred
INVARIANT Bounded
INVARIANT RefFormsAgree
CHECK_DEADLOCK FALSE
