------------------------------- MODULE EditFs -------------------------------
(* C17: the filesystem operations of edit_torrent in program order, with the   *)
(* environment free to kill the process (Crash), fail an operation (Fail) or   *)
(* tear a write (TornWrite) at every point; also requests whose values cannot  *)
(* be encoded.                                                                 *)
(* Variant "code"  : load; [edit]; os.remove(M); encode; open(M,"wb"); write;  *)
(*                   close                       (pinned commit)               *)
(* Variant "fixed" : load; [edit]; encode; open(T,"wb"); write; close;         *)
(*                   os.replace(T, M)            (after the repair)            *)
(* Variant "inwith": as fixed but os.replace is called while the temporary    *)
(*                   file is still open (a seeded defect): the rename carries  *)
(*                   an empty file to M, the data follows at close.            *)
(* Variant "notrunc": as fixed but the temporary file is opened without        *)
(*                   truncation (a seeded defect): safe for one edit, unsafe   *)
(*                   for an edit that follows an interrupted one (Restart).    *)
(* Variant "shortcount": as fixed but the data is written with ONE unbuffered   *)
(*                   write whose return value is ignored (seeds R13-C17 /      *)
(*                   R14-C17): when the kernel takes only part of it (nearly   *)
(*                   full disk, file size limit) the call still returns, the   *)
(*                   program goes on and renames a partial file onto M.  A     *)
(*                   buffered writer turns the same event into an error        *)
(*                   (TornWrite), which is what "fixed" relies on.             *)
(* Variant "bakrollback": as fixed, but a safety copy T2 of the original is      *)
(*                   made first and every error is answered by renaming that   *)
(*                   copy back over M (seed R26-C17): a copy that failed part  *)
(*                   way is then what the roll-back installs.  "bakchecked" is *)
(*                   the same with a roll-back that only fires once the copy   *)
(*                   is known to be complete - safe, kept as a control.        *)
EXTENDS Core, FsModel
CONSTANTS Variant

Op(kind, p, p2, d) == [kind |-> kind, p |-> p, p2 |-> p2, d |-> d, n |-> -1]
\* "ENC" is the (pure) encoding step: it raises for unencodable values and touches nothing
WithBackup == Variant \in {"bakrollback", "bakchecked"}
Program == IF WithBackup
           THEN <<Op("open_trunc", "T2", "", ""), Op("write", "T2", "", "Old"), Op("close", "T2", "", ""),
                  Op("ENC", "", "", ""), Op("open_trunc", "T1", "", ""), Op("write", "T1", "", "New"),
                  Op("close", "T1", "", ""), Op("rename", "T1", "M", ""), Op("remove", "T2", "", "")>>
           ELSE IF Variant = "code"
           THEN <<Op("remove", "M", "", ""), Op("ENC", "", "", ""), Op("open_trunc", "M", "", ""),
                  Op("write", "M", "", "New"), Op("close", "M", "", "")>>
           ELSE IF Variant = "inwith"
           THEN <<Op("ENC", "", "", ""), Op("open_trunc", "T1", "", ""), Op("write", "T1", "", "New"),
                  Op("rename", "T1", "M", ""), Op("close", "T1", "", "")>>
           ELSE <<Op("ENC", "", "", ""), Op(IF Variant = "notrunc" THEN "open_create" ELSE "open_trunc", "T1", "", ""),
                  Op("write", "T1", "", "New"),
                  Op("close", "T1", "", ""), Op("rename", "T1", "M", "")>>      \* "fixed", "notrunc", "shortcount"

VARIABLES fs, pc, status, encodable, round
vars == <<fs, pc, status, encodable, round>>

Init == /\ fs = EmptyFs("Old") /\ pc = 1 /\ status = "running" /\ encodable \in BOOLEAN /\ round = 1
Running == status = "running" /\ pc <= Len(Program)
StepOp == /\ Running
          /\ LET op == Program[pc] IN
             IF op.kind = "ENC"
             THEN IF encodable THEN fs' = fs /\ pc' = pc + 1 /\ status' = status
                  ELSE fs' = fs /\ pc' = pc /\ status' = "error"          \* EncodeError propagates
             ELSE fs' = Apply(fs, op) /\ pc' = pc + 1 /\ status' = status
          /\ UNCHANGED <<encodable, round>>
Finish == /\ status = "running" /\ pc > Len(Program) /\ status' = "done" /\ UNCHANGED <<fs, pc, encodable, round>>
Crash == /\ Running /\ status' = "crashed" /\ UNCHANGED <<fs, pc, encodable, round>>
\* (with a backup the error is first HANDLED: see Handle)
Raised == IF WithBackup THEN "handling" ELSE "error"
Fail == /\ Running /\ Program[pc].kind # "ENC"            \* the operation raises OSError, edit returns the error
        /\ status' = Raised /\ UNCHANGED <<fs, pc, encodable, round>>
TornWrite == /\ Running /\ Program[pc].kind = "write"
             /\ \E k \in {0, 1} : fs' = Torn(fs, Program[pc], k)
             /\ status' \in {Raised, "crashed"} /\ UNCHANGED <<pc, encodable, round>>
\* the except-branch of the backup variants: put the safety copy back, if there is one (and, "bakchecked", only if the
\* program got past closing it, i.e. it is known to be complete); it may be killed before it gets there (Crash below)
Handle == /\ status = "handling"
          /\ fs' = (IF Get(fs.c, "T2") # "Absent" /\ (Variant = "bakrollback" \/ pc > 3)
                    THEN Apply(fs, Op("rename", "T2", "M", "")) ELSE fs)
          /\ status' = "error" /\ UNCHANGED <<pc, encodable, round>>
HandleCrash == /\ status = "handling" /\ status' = "crashed" /\ UNCHANGED <<fs, pc, encodable, round>>
\* the kernel takes only part of the data and the call RETURNS (a short count): only a program that ignores the
\* count goes on as if nothing had happened
ShortCount == /\ Running /\ Program[pc].kind = "write" /\ Variant = "shortcount"
              /\ fs' = Torn(fs, Program[pc], 1) /\ pc' = pc + 1
              /\ UNCHANGED <<status, encodable, round>>
\* a later edit in the same directory after an interrupted or failed one: what is at M now is
\* its "Old"; whatever the first run left elsewhere is still there (length unknown)
Relabel(f) == [c |-> [p \in DOMAIN f.c |-> IF p = "M" THEN "Old"
                                           ELSE IF f.c[p] \in {"Absent", "Empty"} THEN f.c[p] ELSE "Other"],
               pend |-> [p \in DOMAIN f.pend |-> NoPend], sz |-> [p \in DOMAIN f.sz |-> -1], loc |-> NoLoc]
Restart == /\ status \in {"crashed", "error"} /\ round = 1 /\ Safe(fs)
           /\ fs' = Relabel(fs) /\ pc' = 1 /\ status' = "running" /\ round' = 2
           /\ encodable' \in BOOLEAN
Next == StepOp \/ Finish \/ Crash \/ Fail \/ TornWrite \/ ShortCount \/ Restart \/ Handle \/ HandleCrash
Spec == Init /\ [][Next]_vars

\* C17: at every point the metafile path holds the complete old or the complete new metafile
NeverLost == Safe(fs)
\* an edit that raised leaves the original, unless the new one was already fully in place
ErrorLeavesComplete == status = "error" => OnDisk(fs, "M") \in {"Old", "New"}
DoneIsNew == status = "done" => OnDisk(fs, "M") = "New"
=============================================================================
