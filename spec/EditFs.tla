------------------------------- MODULE EditFs -------------------------------
(* C17: the filesystem operations of edit_torrent in program order, with the   *)
(* environment free to kill the process (Crash), fail an operation (Fail) or   *)
(* tear a write (TornWrite) at every point; also requests whose values cannot  *)
(* be encoded.                                                                 *)
(* Variant "code"  : load; [edit]; os.remove(M); encode; open(M,"wb"); write;  *)
(*                   close                       (pinned commit)               *)
(* Variant "fixed" : load; [edit]; encode; open(T,"wb"); write; close;         *)
(*                   os.replace(T, M)            (after the repair)            *)
EXTENDS Core, FsModel
CONSTANTS Variant

Op(kind, p, p2, d) == [kind |-> kind, p |-> p, p2 |-> p2, d |-> d]
\* "ENC" is the (pure) encoding step: it raises for unencodable values and touches nothing
Program == IF Variant = "code"
           THEN <<Op("remove", "M", "", ""), Op("ENC", "", "", ""), Op("open_trunc", "M", "", ""),
                  Op("write", "M", "", "New"), Op("close", "M", "", "")>>
           ELSE <<Op("ENC", "", "", ""), Op("open_trunc", "T1", "", ""), Op("write", "T1", "", "New"),
                  Op("close", "T1", "", ""), Op("rename", "T1", "M", "")>>

VARIABLES fs, pc, status, encodable
vars == <<fs, pc, status, encodable>>

Init == /\ fs = EmptyFs("Old") /\ pc = 1 /\ status = "running" /\ encodable \in BOOLEAN
Running == status = "running" /\ pc <= Len(Program)
StepOp == /\ Running
          /\ LET op == Program[pc] IN
             IF op.kind = "ENC"
             THEN IF encodable THEN fs' = fs /\ pc' = pc + 1 /\ status' = status
                  ELSE fs' = fs /\ pc' = pc /\ status' = "error"          \* EncodeError propagates
             ELSE fs' = Apply(fs, op) /\ pc' = pc + 1 /\ status' = status
          /\ UNCHANGED encodable
Finish == /\ status = "running" /\ pc > Len(Program) /\ status' = "done" /\ UNCHANGED <<fs, pc, encodable>>
Crash == /\ Running /\ status' = "crashed" /\ UNCHANGED <<fs, pc, encodable>>
Fail == /\ Running /\ Program[pc].kind # "ENC"            \* the operation raises OSError, edit returns the error
        /\ status' = "error" /\ UNCHANGED <<fs, pc, encodable>>
TornWrite == /\ Running /\ Program[pc].kind = "write"
             /\ \E k \in {0, 1} : fs' = Torn(fs, Program[pc], k)
             /\ status' \in {"error", "crashed"} /\ UNCHANGED <<pc, encodable>>
Next == StepOp \/ Finish \/ Crash \/ Fail \/ TornWrite
Spec == Init /\ [][Next]_vars

\* C17: at every point the metafile path holds the complete old or the complete new metafile
NeverLost == Safe(fs)
\* an edit that raised leaves the original, unless the new one was already fully in place
ErrorLeavesComplete == status = "error" => OnDisk(fs, "M") \in {"Old", "New"}
DoneIsNew == status = "done" => OnDisk(fs, "M") = "New"
=============================================================================
