SPECIFICATION Spec
CONSTANTS
  Variant = "code"
  MaxExp = 29
INVARIANT Refines
INVARIANT AutoOK
INVARIANT AutoMonotone
CHECK_DEADLOCK FALSE
