SPECIFICATION Spec
CONSTANTS
  B = 2
  MaxPieces = 24
  PieceLens = {2, 4, 8, 16}
  Classes = {"V2", "HY", "FH", "FHh"}
  Variant = "m_nopadlayers"
INVARIANT RootCorrect
INVARIANT LayerCorrect
INVARIANT RefAgree
INVARIANT PiecesCorrect
INVARIANT AllAgree
INVARIANT NoUnknown
CHECK_DEADLOCK FALSE
