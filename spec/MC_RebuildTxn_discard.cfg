SPECIFICATION Spec
CONSTANTS
  Variant = "discard"
  MaxEntries = 4
INVARIANT OutsideUntouched
INVARIANT PlacedAsModelled
INVARIANT RollbackClean
CHECK_DEADLOCK FALSE
