SPECIFICATION FairSpec
CONSTANTS
  B = 2
  MaxPieces = 24
  PieceLens = {2, 4, 8, 16}
  Classes = {"V2", "HY", "FH", "FHh"}
  Variant = "code"
CHECK_DEADLOCK FALSE
PROPERTY Terminates
