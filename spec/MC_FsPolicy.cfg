SPECIFICATION Spec
INVARIANT ProgramsFollowPolicy
INVARIANT ReadOnlyUnchanged
INVARIANT CreateWritesOne
INVARIANT PayloadNeverTouched
INVARIANT RenameNeverClobbers
CHECK_DEADLOCK FALSE
