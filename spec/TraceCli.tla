------------------------------- MODULE TraceCli -------------------------------
(* Trace specification for C20.  A group is one option set supplied through    *)
(* the three routes (keywords, configuration file, command line in several     *)
(* argument orders).  Every member must put each option into its documented    *)
(* field (C20.fields: compared with the reference record computed here from    *)
(* the option set) and all members must produce the same file apart from the   *)
(* creation date (C20.same).  Field values use the encoding of TraceEdit.      *)
EXTENDS Core, TLC, Json, IOUtils
Recs == ndJsonDeserialize(IOEnv.TRACE_FILE)
VARIABLES i, grp
vars == <<i, grp>>
InGrp(r) == grp.n > 0 /\ grp.id = r.group
Opt(r, f) == r.opts[f]

FieldsOK(r) ==
  LET m == r.m w == r.want IN
  /\ m.decodable /\ m.has_info
  /\ IF Opt(r, "A") THEN m.announce = <<"+", w.announce[1]>> /\ m.announce_list = <<"+", w.announce>>
                    ELSE m.announce = <<"-">> /\ m.announce_list = <<"-">>
  /\ m.url_list = (IF Opt(r, "W") THEN <<"+">> \o w.urllist ELSE <<"-">>)
  /\ m.httpseeds = (IF Opt(r, "H") THEN <<"+">> \o w.httpseeds ELSE <<"-">>)
  /\ m.private = (IF Opt(r, "P") THEN <<"+", "1">> ELSE <<"-">>)
  /\ m.source = (IF Opt(r, "S") THEN <<"+", w.source>> ELSE <<"-">>)
  /\ m.comment = (IF Opt(r, "C") THEN <<"+", w.comment>> ELSE <<"-">>)
  /\ (Opt(r, "L") => m.plen = w.plen)
  /\ LET v == IF Opt(r, "V") THEN w.version ELSE 1 IN
     /\ m.has_pieces = (v \in {1, 3})
     /\ m.has_tree = (v \in {2, 3})
     /\ (v = 1 => m.has_pad = (Opt(r, "G") /\ w.padneeded))
  /\ r.outfile_ok /\ r.new_files = 1

\* the token-level model of the command line (CliArgv.tla) at the record's argv: what argparse hands to
\* commands.create, as the model predicts it (clause M20.argv; skipped when the boundary could not be observed)
AV == INSTANCE CliArgv WITH Variant <- "fixed", MaxGroups <- 0, groups <- 0, pos <- 0, st <- 0
NsAgrees(r) == LET ns == AV!ParseArgv(r.tokens) IN
               /\ ~ns.error /\ ns.lists = r.ns.lists /\ ns.scalars = r.ns.scalars
               /\ ns.switches = SeqToSet(r.ns.switches) /\ ns.content = r.ns.content

Clause(r, c) ==
  CASE c = "M20.argv" -> ~r.ns.captured \/ NsAgrees(r)
    [] c = "C20.fields" -> r.status = "ok" /\ FieldsOK(r)
    [] c = "C20.same" -> r.status = "ok" /\ (~InGrp(r) \/ r.rest_sig = grp.sig)
    [] OTHER -> FALSE
Report(r) == \A k \in DOMAIN r.clauses :
                IF Clause(r, r.clauses[k]) THEN TRUE ELSE PrintT(<<"FAIL", r.id, r.clauses[k]>>)
NoGrp == [n |-> 0, id |-> "none", sig |-> ""]
NewGrp(r) == IF InGrp(r) THEN grp
             ELSE IF r.status = "ok" THEN [n |-> 1, id |-> r.group, sig |-> r.rest_sig] ELSE NoGrp
Init == i = 0 /\ grp = NoGrp
Next == /\ i < Len(Recs)
        /\ LET r == Recs[i + 1] IN Report(r) /\ grp' = NewGrp(r)
        /\ i' = i + 1
Spec == Init /\ [][Next]_vars
AllConsumed == TLCGet("stats").diameter = Len(Recs) + 1
=============================================================================
