SPECIFICATION Spec
CONSTANTS
  Variant = "rollback"
  MaxEntries = 4
INVARIANT OutsideUntouched
INVARIANT PlacedAsModelled
INVARIANT RollbackClean
CHECK_DEADLOCK FALSE
