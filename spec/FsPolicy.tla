------------------------------- MODULE FsPolicy -------------------------------
(* C18, model-checking part: the commands as programs over FsModel, checked    *)
(* against the per-command policies of FsPolicyOps.                            *)
EXTENDS Core, FsModel, FsPolicyOps

(* ---- the commands as programs (model checking) -------------------------------- *)
Op(kind, p, p2, d) == [kind |-> kind, p |-> p, p2 |-> p2, d |-> d, n |-> -1]
CreateProgram == <<Op("open_append", "O", "", ""), Op("close", "O", "", ""), Op("remove", "O", "", ""),
                   Op("open_trunc", "O", "", ""), Op("write", "O", "", "New"), Op("close", "O", "", "")>>
RenameProgram(targetExists) == IF targetExists THEN <<>> ELSE <<Op("rename", "M", "N", "")>>

VARIABLES cmd, fs0, fs, pc, prog
vars == <<cmd, fs0, fs, pc, prog>>
Paths == {"M", "N", "O", "P1"}
Init == /\ cmd \in ReadOnlyCmds \cup {"create", "rename"}
        /\ \E o \in {"Absent", "Other"}, n \in {"Absent", "Other"} :
              /\ fs0 = [c |-> [p \in Paths |-> CASE p = "M" -> "Old" [] p = "N" -> n [] p = "O" -> o [] OTHER -> "Other"],
                        pend |-> [p \in Paths |-> NoPend], sz |-> [p \in Paths |-> -1], loc |-> NoLoc]
              /\ prog = CASE cmd = "create" -> CreateProgram
                          [] cmd = "rename" -> RenameProgram(n # "Absent")
                          [] OTHER -> <<>>
        /\ fs = fs0 /\ pc = 1
Next == pc <= Len(prog) /\ fs' = Apply(fs, prog[pc]) /\ pc' = pc + 1 /\ UNCHANGED <<cmd, fs0, prog>>
Spec == Init /\ [][Next]_vars

Done == pc > Len(prog)
ProgramsFollowPolicy == PolicyOK(cmd, prog)
ReadOnlyUnchanged == cmd \in ReadOnlyCmds => fs = fs0
CreateWritesOne == (cmd = "create" /\ Done) =>
                      /\ Get(fs.c, "O") = "New"
                      /\ \A p \in Paths \ {"O"} : Get(fs.c, p) = Get(fs0.c, p)
PayloadNeverTouched == Get(fs.c, "P1") = Get(fs0.c, "P1")
RenameNeverClobbers == cmd = "rename" =>
                          /\ (Get(fs0.c, "N") # "Absent" => fs = fs0)
                          /\ ((Get(fs0.c, "N") = "Absent" /\ Done) =>
                                 (Get(fs.c, "N") = "Old" /\ Get(fs.c, "M") = "Absent"))
=============================================================================
