SPECIFICATION Spec
CONSTANTS
  Variant = "instance"
  MaxPieces = 3
  MaxCalls = 7
VIEW View
INVARIANT Exact
INVARIANT Hundred
CHECK_DEADLOCK FALSE
