----------------------------- MODULE Determinism -----------------------------
(* C08 (design level): the file order a creator derives from a directory does  *)
(* not depend on the order in which the operating system enumerates entries.   *)
(* A tree is a set of file paths (sequences of names; names are sequences of   *)
(* bytes); the OS enumeration order of every directory is an arbitrary         *)
(* permutation chosen in Init.                                                 *)
(*   v1 order : utils._filelist_total - walk in enumeration order, then        *)
(*              sorted(filelist) over full path strings (components joined     *)
(*              by "/" = byte 47)                                              *)
(*   v2 order : _traverse - sorted(os.listdir(dir)) per directory, depth first *)
(* Variant "nosort" drops the sorted() calls and must fail.                    *)
EXTENDS Core, SequencesExt, FiniteSetsExt
CONSTANTS Variant, Trees

RECURSIVE Join(_)
Join(path) == IF Len(path) = 1 THEN path[1] ELSE path[1] \o <<47>> \o Join(Tail(path))
PathLess(a, b) == LexLess(Join(a), Join(b))
NameLess(a, b) == LexLess(a, b)

Children(tree, prefix) == {p[Len(prefix) + 1] : p \in {q \in tree : Len(q) > Len(prefix) /\ SubSeq(q, 1, Len(prefix)) = prefix}}
IsFile(tree, path) == path \in tree

\* enumeration: a function from directory prefix to an ordering (sequence) of its children
Orderings(S) == {s \in [1 .. Cardinality(S) -> S] : \A a, b \in DOMAIN s : a # b => s[a] # s[b]}
Dirs(tree) == UNION {{SubSeq(p, 1, k) : k \in 0 .. (Len(p) - 1)} : p \in tree}

RECURSIVE Walk(_, _, _, _)
\* depth-first walk of directory `prefix`, visiting children in the order given by ord(prefix)
Walk(tree, enum, prefix, sortit) ==
    LET kids == enum[prefix]
        order == IF sortit THEN SortSeq(kids, NameLess) ELSE kids
        RECURSIVE Go(_)
        Go(k) == IF k > Len(order) THEN <<>>
                 ELSE LET p == Append(prefix, order[k])
                      IN (IF IsFile(tree, p) THEN <<p>> ELSE Walk(tree, enum, p, sortit)) \o Go(k + 1)
    IN Go(1)

V1Order(tree, enum) == LET w == Walk(tree, enum, <<>>, FALSE)
                       IN IF Variant = "nosort" THEN w ELSE SortSeq(w, PathLess)
V2Order(tree, enum) == Walk(tree, enum, <<>>, Variant # "nosort")

VARIABLES tree, enum
Init == /\ tree \in Trees
        /\ enum \in {e \in [Dirs(tree) -> UNION {Orderings(Children(tree, d)) : d \in Dirs(tree)}] :
                        \A d \in Dirs(tree) : e[d] \in Orderings(Children(tree, d))}
Next == UNCHANGED <<tree, enum>>
Spec == Init /\ [][Next]_<<tree, enum>>

Canon(t) == [d \in Dirs(t) |-> SortSeq(SetToSeq(Children(t, d)), NameLess)]
OrderIndependent == /\ V1Order(tree, enum) = V1Order(tree, Canon(tree))
                    /\ V2Order(tree, enum) = V2Order(tree, Canon(tree))
\* both orders list every file exactly once
Complete == /\ SeqToSet(V1Order(tree, enum)) = tree /\ Len(V1Order(tree, enum)) = Cardinality(tree)
            /\ SeqToSet(V2Order(tree, enum)) = tree /\ Len(V2Order(tree, enum)) = Cardinality(tree)
=============================================================================
