----------------------------- MODULE MapPiecesRef -----------------------------
(* Reference: which byte ranges of which files make up piece k of the          *)
(* concatenated stream.                                                        *)
EXTENDS Core
Total(sizes) == SumSeq(sizes)
(* ---- reference: the stream slices of piece k (1-based), as <<file, offset, len>> ---- *)
FileStart(sizes, f) == SumTo(sizes, f - 1)
RefSlices(sizes, P, k) ==
    LET a == (k - 1) * P
        b == Min(k * P, Total(sizes))
        hit == SelectSeq([f \in 1 .. Len(sizes) |-> f],
                         LAMBDA f : Max(a, FileStart(sizes, f)) < Min(b, FileStart(sizes, f) + sizes[f]))
    IN [j \in DOMAIN hit |-> LET f == hit[j]
                                 lo == Max(a, FileStart(sizes, f))
                                 hi == Min(b, FileStart(sizes, f) + sizes[f])
                             IN <<f, lo - FileStart(sizes, f), hi - lo>>]
=============================================================================
