----------------------------- MODULE TracePieceLength -----------------------------
(* Trace specification for C12.  Integers travel as binary digit lists (least  *)
(* significant first) plus a sign, because TLC integers are 32-bit and the     *)
(* property quantifies over values up to 2^64 and payload sizes up to 2^50.    *)
(* A record is one call of the normaliser (directly, or through a create via   *)
(* library / CLI / configuration file) or one automatic choice.                *)
EXTENDS Core, TLC, Json, IOUtils

Recs == ndJsonDeserialize(IOEnv.TRACE_FILE)
VARIABLES i, lastauto
vars == <<i, lastauto>>

(* ---- arithmetic on binary digit lists ------------------------------------------ *)
Ones(b) == Cardinality({k \in DOMAIN b : b[k] = 1})
WellFormedBits(b) == (\A k \in DOMAIN b : b[k] \in {0, 1}) /\ (b = <<>> \/ b[Len(b)] = 1)
IsPow2Bits(b) == Ones(b) = 1
ExpOf(b) == Len(b) - 1                                  \* for powers of two: the exponent
RECURSIVE BitsVal(_)
BitsVal(b) == IF b = <<>> THEN 0 ELSE b[1] + 2 * BitsVal(Tail(b))      \* only for Len(b) <= 30
Small(b) == Len(b) <= 6                                  \* < 64
RECURSIVE BitsLessFrom(_, _, _)
BitsLessFrom(a, b, k) == IF k = 0 THEN FALSE
                         ELSE IF a[k] # b[k] THEN a[k] < b[k] ELSE BitsLessFrom(a, b, k - 1)
BitsLeq(a, b) == IF Len(a) # Len(b) THEN Len(a) < Len(b) ELSE a = b \/ BitsLessFrom(a, b, Len(a))
Pow2Bits(e) == [k \in 1 .. (e + 1) |-> IF k = e + 1 THEN 1 ELSE 0]

(* ---- reference (PieceLength.tla's Valid / Norm on digit lists) ------------------- *)
Nonneg(v) == v.sign >= 0
ValidPow(v) == Nonneg(v) /\ IsPow2Bits(v.bits) /\ ExpOf(v.bits) >= 14
ValidExp(v) == Nonneg(v) /\ Small(v.bits) /\ BitsVal(v.bits) >= 14 /\ BitsVal(v.bits) <= 25
OptionalExp(v) == Nonneg(v) /\ Small(v.bits) /\ BitsVal(v.bits) >= 26 /\ BitsVal(v.bits) <= 29
Valid(v) == ValidPow(v) \/ ValidExp(v)
NormBits(v) == IF ValidPow(v) THEN v.bits ELSE Pow2Bits(BitsVal(v.bits))

Accepted(r) == r.status = "accept"
Rejected(r) == r.status = "plve"                       \* the piece-length error, nothing else

Clause(r, c) ==
  CASE c = "C12.accept" ->   \* accepted => it denotes a valid value and the result is its normal form
         Accepted(r) => (/\ r.x.denotes /\ (Valid(r.x) \/ OptionalExp(r.x))
                         /\ WellFormedBits(r.result) /\ r.result = NormBits(r.x))
    [] c = "C12.reject" ->   \* everything else is rejected with the piece-length error
         (~r.x.denotes \/ ~(Valid(r.x) \/ OptionalExp(r.x))) => Rejected(r)
    [] c = "C12.usable" ->   \* plain valid values (int or ASCII decimal string) are accepted
         (r.x.denotes /\ r.x.plain /\ Valid(r.x)) => Accepted(r)
    [] c = "C12.optional" -> (r.x.denotes /\ OptionalExp(r.x)) => (Accepted(r) \/ Rejected(r))
    [] c = "C12.recorded" -> \* a create with an accepted value records exactly the normal form
         (r.created => (r.recorded = r.result /\ Accepted(r))) /\ (~Accepted(r) => ~r.metafile_written)
    [] c = "C12.auto" ->     \* automatic choice: power of two in [2^14, 2^24], never decreasing
         /\ r.status = "ok" /\ WellFormedBits(r.result) /\ IsPow2Bits(r.result)
         /\ ExpOf(r.result) >= 14 /\ ExpOf(r.result) <= 24
         /\ (lastauto.size = <<>> \/ ~BitsLeq(lastauto.size, r.size) \/ BitsLeq(lastauto.value, r.result))
    [] OTHER -> FALSE

Report(r) == \A k \in DOMAIN r.clauses :
                IF Clause(r, r.clauses[k]) THEN TRUE ELSE PrintT(<<"FAIL", r.id, r.clauses[k]>>)
Init == i = 0 /\ lastauto = [size |-> <<>>, value |-> <<>>]
Next == /\ i < Len(Recs)
        /\ LET r == Recs[i + 1] IN
           /\ Report(r)
           /\ lastauto' = IF r.op = "auto" /\ r.status = "ok" THEN [size |-> r.size, value |-> r.result] ELSE lastauto
        /\ i' = i + 1
Spec == Init /\ [][Next]_vars
AllConsumed == TLCGet("stats").diameter = Len(Recs) + 1
=============================================================================
