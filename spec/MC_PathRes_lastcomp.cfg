SPECIFICATION Spec
CONSTANT Variant = "lastcomp"
INVARIANT Safe
CHECK_DEADLOCK FALSE
