SPECIFICATION Spec
CONSTANTS
  MaxFiles = 3
  MaxSize = 5
  PieceLens = {2}
  Variant = "fixed"
INVARIANT StreamCorrect
INVARIANT TotalCorrect
INVARIANT Hundred
CHECK_DEADLOCK FALSE
