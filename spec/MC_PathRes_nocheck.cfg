SPECIFICATION Spec
CONSTANT Variant = "nocheck"
INVARIANT Safe
CHECK_DEADLOCK FALSE
