----------------------------- MODULE RebuildRef -----------------------------
(* Reference layer for rebuild (C13, C14, C19) over an abstracted scenario:    *)
(* every torrent file has an ordered list of same-named candidates found in    *)
(* the search directories, each of a class                                     *)
(*   "intact"     byte-identical to the described file                         *)
(*   "decoy_all"  same size, no byte verifies                                  *)
(*   "decoy_some" same size, every piece but the last verifies                 *)
(*   "decoy_head" same size, every piece but the first verifies                *)
(*   "longer" / "shorter"  wrong size                                          *)
(* and a destination pre-state "absent" | "correct" | "wrong_full" | "shorter" *)
(* | "unrelated".  After the run a file is "absent", "pre" (untouched          *)
(* pre-existing bytes), "intact", "cand:<class>" or "other".                   *)
EXTENDS Core

SameSize == {"intact", "decoy_all", "decoy_some", "decoy_head"}
HasIntact(f) == \E k \in DOMAIN f.cands : f.cands[k] = "intact"
AllIntactAvailable(files) == \A k \in DOMAIN files : HasIntact(files[k])
Verifies(f) == f.after = "intact" \/ (f.after = "pre" /\ f.pre_intact)

\* C13: complete whenever an intact copy of every file is available
Complete(files) == AllIntactAvailable(files) => \A k \in DOMAIN files : Verifies(files[k])
\* C14: a destination file that already has its full length is never altered
FullLengthKept(files) == \A k \in DOMAIN files :
                            files[k].dest_pre \in {"correct", "wrong_full"} => files[k].after = "pre"
\* C14: a candidate none of whose bytes verify is never placed
NoDeadDecoy(files) == \A k \in DOMAIN files : files[k].length > 0 => files[k].after # "cand:decoy_all"
=============================================================================
