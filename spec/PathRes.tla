------------------------------- MODULE PathRes -------------------------------
(* C19: where does rebuild write?  POSIX path resolution (symbolic links,      *)
(* "..", ".", empty and absolute components) over a small filesystem, the      *)
(* destination test of rebuild._destination and the directory chain + copy of  *)
(* utils.copypath, judged by where the KERNEL would put every mkdir and the    *)
(* final write.                                                                *)
(*                                                                             *)
(* A path is a sequence of names below "/".  A filesystem is                   *)
(*   [dirs, files : sets of paths, links : set of <<path, absolute target>>].  *)
(* A metafile entry is a sequence of ELEMENTS (the name, then the path list /  *)
(* file-tree keys); an element is [abs, comps]: a string that may embed        *)
(* separators ("a/../../b") or be absolute ("/s/out").  os.path.join lets an   *)
(* absolute element discard everything before it.                              *)
(*                                                                             *)
(* Variants of _destination (all but "fixed" must be rejected by TLC):         *)
(*   "fixed"      0893215: realpath of the destination and of the joined path, *)
(*                component-wise containment, the RESOLVED path is what        *)
(*                copypath receives                                            *)
(*   "nocheck"    pinned commit: join and copy                                 *)
(*   "checkonly"  2ccdc01: containment tested on the resolved path, but the    *)
(*                unresolved spelling handed to copypath ("../ghost/../dest/x" *)
(*                creates ghost outside)                                       *)
(*   "normpath"   lexical normalisation only (symbolic links not followed)     *)
(*   "lastcomp"   only the parent directory is resolved (seed R12-C19)         *)
(*   "charprefix" containment tested on characters, not components (seed C19:  *)
(*                "dest_old" passes for "dest")                                *)
EXTENDS Core, TLC
CONSTANTS Variant

Prefix(p, q) == Len(p) <= Len(q) /\ SubSeq(q, 1, Len(p)) = p
Last(p) == p[Len(p)]
Front(p) == SubSeq(p, 1, Len(p) - 1)

HasLink(fs, p) == \E l \in fs.links : l[1] = p
Target(fs, p) == (CHOOSE l \in fs.links : l[1] = p)[2]
NoLinks(fs) == [fs EXCEPT !.links = {}]

(* realpath (strict = False) = what the kernel does as far as the path exists, *)
(* lexical beyond: components are consumed left to right on a stack of         *)
(* already-resolved names; a link replaces the stack by its (absolute) target. *)
RECURSIVE Res(_, _, _, _)
Res(fs, stack, rest, fuel) ==
    IF rest = <<>> THEN stack
    ELSE LET c == Head(rest)
             t == Tail(rest)
         IN IF c = "" \/ c = "." THEN Res(fs, stack, t, fuel)
            ELSE IF c = ".." THEN Res(fs, IF stack = <<>> THEN <<>> ELSE Front(stack), t, fuel)
            ELSE LET p == Append(stack, c)
                 IN IF HasLink(fs, p) /\ fuel > 0 THEN Res(fs, <<>>, Target(fs, p) \o t, fuel - 1)
                    ELSE Res(fs, p, t, fuel)
Real(fs, p) == Res(fs, <<>>, p, 8)
\* the same walk that stops before a link in the LAST position (lstat / mkdir / unlink semantics)
RealParent(fs, p) == IF p = <<>> THEN <<>> ELSE Append(Real(fs, Front(p)), Last(p))
Exists(fs, p) == LET r == Real(fs, p) IN r = <<>> \/ r \in fs.dirs \/ r \in fs.files
IsDir(fs, p) == LET r == Real(fs, p) IN r = <<>> \/ r \in fs.dirs

(* os.path.join(dest, name, *path) *)
RECURSIVE Join(_, _)
Join(acc, elems) == IF elems = <<>> THEN acc
                    ELSE LET e == Head(elems)
                         IN Join(IF e.abs THEN e.comps ELSE acc \o e.comps, Tail(elems))

Inside(base, p) == Prefix(base, p) /\ Len(p) > Len(base)
\* names are plain strings in the model; the only pair in which one is a character prefix of another:
CharPrefix(a, b) == a = b \/ (a = "dest" /\ b = "dest_old")
CharInside(base, p) == /\ Len(p) >= Len(base) /\ Front(base) = SubSeq(p, 1, Len(base) - 1)
                       /\ CharPrefix(Last(base), p[Len(base)])

Refused == <<"refused">>
(* rebuild._destination(dest, relative): the path handed to copypath, or Refused *)
Destination(fs, dest, elems) ==
    LET base   == Real(fs, dest)
        joined == Join(base, elems)
        target == Real(fs, joined)
    IN CASE Variant = "fixed"      -> IF target = base \/ Inside(base, target) THEN target ELSE Refused
         [] Variant = "nocheck"    -> Join(dest, elems)
         [] Variant = "checkonly"  -> IF target = base \/ Inside(base, target) THEN Join(dest, elems) ELSE Refused
         [] Variant = "normpath"   -> LET b == Real(NoLinks(fs), dest)
                                          t == Real(NoLinks(fs), Join(b, elems))
                                      IN IF t = b \/ Inside(b, t) THEN t ELSE Refused
         [] Variant = "lastcomp"   -> LET t == IF joined = <<>> \/ Last(joined) \in {"", ".", ".."} THEN target
                                               ELSE Append(Real(fs, Front(joined)), Last(joined))
                                      IN IF t = base \/ Inside(base, t) THEN t ELSE Refused
         [] Variant = "charprefix" -> IF target = base \/ CharInside(base, target) THEN target ELSE Refused

(* utils.copypath(source, dest): every directory on the way that does not      *)
(* exist is created, then the file is copied over whatever the path leads to.  *)
(* Result: [ok, muts] - the places the kernel mutates, in order.  A dangling   *)
(* link where a directory is wanted makes mkdir fail (FileExistsError): the    *)
(* call ends there, nothing more is written.                                   *)
RECURSIVE Chain(_, _, _, _)
Chain(fs, path, k, muts) ==
    IF k >= Len(path) THEN
        \* shutil.copy: into the directory if the path leads to one, else create / overwrite the file the
        \* path leads to (a link in the last position is followed, a dangling one creates its target)
        LET r == Real(fs, path)
            w == IF r \in fs.dirs THEN Append(r, Last(path)) ELSE r
        IN [ok |-> TRUE, muts |-> Append(muts, w), fs |-> [fs EXCEPT !.files = @ \cup {w}]]
    ELSE LET pre == SubSeq(path, 1, k)
         IN IF Exists(fs, pre) THEN Chain(fs, path, k + 1, muts)
            ELSE LET at == RealParent(fs, pre)
                 IN IF HasLink(fs, at) THEN [ok |-> FALSE, muts |-> muts, fs |-> fs]
                    ELSE Chain([fs EXCEPT !.dirs = @ \cup {at}], path, k + 1, Append(muts, at))
CopyPath(fs, path) ==
    IF Len(path) <= 1 THEN [ok |-> TRUE, muts |-> <<>>, fs |-> fs]          \* len(path_parts) > 1 fails: nothing happens
    ELSE Chain(fs, path, 1, <<>>)

(* the whole step for one metafile entry *)
Place(fs, dest, elems) ==
    LET d == Destination(fs, dest, elems)
    IN IF d = Refused THEN [accepted |-> FALSE, ok |-> TRUE, muts |-> <<>>, target |-> <<>>]
       ELSE LET c == CopyPath(fs, d) IN [accepted |-> TRUE, ok |-> c.ok, muts |-> c.muts, target |-> d]

(* ---- the universe ----------------------------------------------------------------- *)
S == <<"s">>
Dest == <<"s", "dest">>
Out == <<"s", "out">>
E(abs, comps) == [abs |-> abs, comps |-> comps]
PlainElems == {E(FALSE, <<"pkg">>), E(FALSE, <<"sub">>)}
HostileElems == {E(FALSE, <<"..">>), E(FALSE, <<".">>), E(FALSE, <<"">>), E(TRUE, <<"s", "out">>),
                 E(FALSE, <<"a", "..", "..", "b">>), E(FALSE, <<"..", "dest_old">>),
                 E(FALSE, <<"..", "ghost", "..", "dest", "pkg">>), E(FALSE, <<"..", "..", "..", "..", "x">>),
                 E(FALSE, <<"pkg", "..", "..", "dest2">>)}
Elems == PlainElems \cup HostileElems
FileElem == E(FALSE, <<"f">>)
\* name, then 0..2 directory elements, then the file name
Entries == {<<n>> \o mid \o <<FileElem>> : n \in Elems, mid \in {<<>>} \cup {<<a>> : a \in Elems}
                                                                 \cup {<<a, b>> : a \in PlainElems \cup {E(FALSE, <<"..">>)}, b \in Elems}}
\* pre-state of the destination: what sits at dest/pkg and at dest/pkg/f (or dest/in/f)
World(pkg, f, spelling) ==
    LET pkgp == Dest \o <<"pkg">>
        inp  == Dest \o <<"in">>
        fdir == IF pkg = "dir" THEN pkgp ELSE IF pkg = "linkin" THEN inp ELSE <<>>
        dirs0 == {S, Dest, Out, <<"s", "m">>, <<"s", "dest_old">>}
        dirs == dirs0 \cup (IF pkg = "dir" THEN {pkgp} ELSE {}) \cup (IF pkg = "linkin" THEN {inp} ELSE {})
        files == (IF f = "file" /\ fdir # <<>> THEN {Append(fdir, "f")} ELSE {})
                 \cup (IF f = "linksmall" THEN {Out \o <<"victim">>} ELSE {})
        links == {<<<<"s", "dl">>, Dest>>}
                 \cup (IF pkg = "linkout" THEN {<<pkgp, Out>>} ELSE {})
                 \cup (IF pkg = "linkin" THEN {<<pkgp, inp>>} ELSE {})
                 \cup (IF f \in {"linkdangling", "linksmall"} /\ fdir # <<>> THEN {<<Append(fdir, "f"), Out \o <<"victim">>>>} ELSE {})
    IN [fs |-> [dirs |-> dirs, files |-> files, links |-> links],
        dest |-> CASE spelling = "plain" -> Dest [] spelling = "link" -> <<"s", "dl">> [] OTHER -> <<"s", "m", "..", "dest">>]

VARIABLES w, entry, done
vars == <<w, entry, done>>
Init == /\ done = FALSE
        /\ \E pkg \in {"absent", "dir", "linkout", "linkin"}, f \in {"absent", "file", "linkdangling", "linksmall"},
              sp \in {"plain", "link", "dots"} : w = World(pkg, f, sp)
        /\ entry \in Entries
Next == done = FALSE /\ done' = TRUE /\ UNCHANGED <<w, entry>>
Spec == Init /\ [][Next]_vars

Result == Place(w.fs, w.dest, entry)
\* C19: whatever the metafile says and whatever already sits in the destination, every directory created and
\* the file written lie inside the destination (as the kernel resolves them)
Safe == \A k \in DOMAIN Result.muts : Inside(Dest, Result.muts[k])
\* what copypath receives is where the kernel writes: no link or ".." is left in it
ResolvedTarget == (Variant = "fixed" /\ Result.accepted /\ Result.ok /\ Result.muts # <<>>) =>
                      LET wr == Last(Result.muts) IN wr = Result.target \/ wr = Append(Result.target, "f")
\* ordinary entries keep working: plain names in a destination without links inside are placed where they belong
Benign == (\A k \in DOMAIN entry : entry[k] \in PlainElems \cup {FileElem}) /\ ~HasLink(w.fs, Dest \o <<"pkg">>)
              /\ ~HasLink(w.fs, Dest \o <<"pkg", "f">>)
          => Result.accepted /\ Result.ok /\ Last(Result.muts) = Join(Dest, entry)
\* emit the universe for replay into the real rebuild (Sim_PathRes.cfg)
EmitWorld == PrintT(<<"PRWORLD", [dirs |-> w.fs.dirs, files |-> w.fs.files, links |-> w.fs.links, dest |-> w.dest,
                                   entry |-> entry, accepted |-> Result.accepted, ok |-> Result.ok, muts |-> Result.muts]>>)
=============================================================================
