----------------------------- MODULE TraceEdit -----------------------------
(* Trace specification for the write path and edit (C06, C07).                 *)
(* A group is one history executed in one process: an "open" record (the       *)
(* metafile as created) followed by "edit" records (request, entry point,      *)
(* metafile afterwards).  TLC keeps the expected abstract metafile `model`     *)
(* (EditSem: each named field at its last written value, everything else as    *)
(* created) and checks every observed metafile against it, plus canonicity     *)
(* and structure of every metafile written.                                    *)
EXTENDS Core, TLC, Json, IOUtils

Recs == ndJsonDeserialize(IOEnv.TRACE_FILE)
VARIABLES i, model
vars == <<i, model>>

Fields == {"comment", "source", "private", "announce", "url-list", "httpseeds"}
InfoFields == {"comment", "source", "private"}
KeysOf(f) == IF f = "announce" THEN {"announce", "announce-list"} ELSE {f}
Named(req) == {f \in Fields : req[f] # "u"}
NamedKeys(req) == UNION {KeysOf(f) : f \in Named(req)}

\* observed value of an editable field.  Encoding (harness): <<"-">> absent, <<"+", v...>> present
\* (text as hex of its bytes; private as its decimal digits); announce_list is <<"+", tier, ...>>
Val(m, f) == CASE f = "comment" -> m.comment [] f = "source" -> m.source
               [] f = "private" -> m.private [] f = "announce" -> m.announce
               [] f = "url-list" -> m.url_list [] f = "httpseeds" -> m.httpseeds
AbsentVal(f) == <<"-">>
\* value a "set" request must produce
WantVal(r, f) == CASE f = "private" -> <<"+", "1">>
                   [] f = "announce" -> <<"+", r.want.announce[1]>>
                   [] f = "comment" -> <<"+", r.want.comment>> [] f = "source" -> <<"+", r.want.source>>
                   [] f = "url-list" -> <<"+">> \o r.want.urllist [] f = "httpseeds" -> <<"+">> \o r.want.httpseeds
Expected(r, f, old) == IF r.req[f] = "u" THEN old
                       ELSE IF r.req[f] = "c" THEN AbsentVal(f) ELSE WantVal(r, f)

Entries(seq, excl) == {<<seq[k][1], seq[k][2]>> : k \in {j \in DOMAIN seq : seq[j][1] \notin excl}}

Canonical(m) == /\ m.decodable /\ m.top_is_dict
                /\ \A k \in DOMAIN m.orders : StrictlyAscending(m.orders[k].keys)
Structure(m) ==
    LET v1 == m.has_pieces
        v2 == m.meta_version # -1 \/ m.has_tree \/ m.has_layers
    IN /\ m.has_info /\ m.name # "none" /\ m.plen_ok
       /\ v1 \/ v2
       /\ v1 => /\ m.pieces_len >= 0 /\ m.pieces_len % 20 = 0
                /\ (m.length >= 0) # m.has_files
       /\ v2 => /\ m.meta_version = 2 /\ m.has_tree /\ m.has_layers /\ m.layers_is_dict
                /\ \A k \in DOMAIN m.layers : m.layers[k].key_len = 32 /\ m.layers[k].val_len >= 32
                                              /\ m.layers[k].val_len % 32 = 0

Clause(r, c) ==
  LET m == r.meta IN
  CASE c = "C06.order"  -> Canonical(m)
    [] c = "C06.tokens" -> m.decodable /\ m.tokens_ok
    [] c = "C06.struct" -> m.decodable /\ m.top_is_dict /\ Structure(m)
    [] c = "C07.named"  -> r.op = "open" \/
          (m.decodable /\ \A f \in Named(r.req) :
              /\ Val(m, f) = Expected(r, f, <<"-">>)
              /\ (f = "announce" /\ r.req[f] # "c") => m.announce_list = <<"+", r.want.announce>>)
    [] c = "C07.frame"  -> r.op = "open" \/
          (/\ m.decodable /\ model.ok
           /\ Entries(m.top, NamedKeys(r.req) \cup {"info"}) = Entries(model.top, NamedKeys(r.req) \cup {"info"})
           /\ Entries(m.info, NamedKeys(r.req)) = Entries(model.info, NamedKeys(r.req)))
    [] c = "C07.infohash" -> r.op = "open" \/
          (m.decodable /\ model.ok /\
           ((Named(r.req) \cap InfoFields = {}) => (m.infohash1 = model.ih1 /\ m.infohash2 = model.ih2)))
    [] c = "C07.history" -> r.op = "open" \/
          (m.decodable /\ model.ok /\ \A f \in Fields : Val(m, f) = Expected(r, f, model.vals[f]))
    [] c = "C07.status" -> r.status = "ok"
    \* one invocation naming the metafile AND an identical twin of it: either the call is refused and neither changes, or
    \* both end up the same (every named metafile gets the whole request)
    [] c = "C07.twin" -> \/ (r.status = "ok" /\ r.twin.same_as_first)
                         \/ (r.status # "ok" /\ r.twin.unchanged /\ r.twin.first_unchanged)
    [] OTHER -> FALSE

\* a create that refuses a payload it may refuse (file names that are not UTF-8) writes no metafile: nothing to judge
Refused(r) == r.op = "open" /\ r.refusable /\ r.status # "ok"
Report(r) == \A k \in DOMAIN r.clauses :
                IF Refused(r) \/ ((r.status = "ok" \/ r.clauses[k] = "C07.twin") /\ Clause(r, r.clauses[k])) THEN TRUE
                ELSE PrintT(<<"FAIL", r.id, r.clauses[k]>>)

NoModel == [ok |-> FALSE, top |-> <<>>, info |-> <<>>, ih1 |-> "", ih2 |-> "", vals |-> <<>>]
Observe(m) == [ok |-> TRUE, top |-> m.top, info |-> m.info, ih1 |-> m.infohash1, ih2 |-> m.infohash2,
               vals |-> [f \in Fields |-> Val(m, f)]]
\* the model follows the OBSERVED file after every step (so that one rejected step does not
\* cascade), while each step is judged against the model of the step before
NewModel(r) == IF r.status = "ok" /\ r.meta.decodable /\ r.meta.has_info THEN Observe(r.meta) ELSE NoModel

Init == i = 0 /\ model = NoModel
Next == /\ i < Len(Recs)
        /\ LET r == Recs[i + 1] IN Report(r) /\ model' = NewModel(r)
        /\ i' = i + 1
Spec == Init /\ [][Next]_vars
AllConsumed == TLCGet("stats").diameter = Len(Recs) + 1
=============================================================================
