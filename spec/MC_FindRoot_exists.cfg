SPECIFICATION Spec
CONSTANT Variant = "exists"
INVARIANT FromRoot
INVARIANT FromParent
CHECK_DEADLOCK FALSE
