------------------------------- MODULE TraceFs -------------------------------
(* Trace specification for filesystem effects (C17, C18).  Records carry the   *)
(* operation log observed from the real code (audit hook + wrapped write-mode  *)
(* files; paths abstracted to roles), an injected fault if any, and what was   *)
(* found on disk afterwards.  TLC replays the log on FsModel: this both binds  *)
(* the FS model to reality (X17.fsmodel: predicted = observed) and evaluates   *)
(* the crash-safety invariant on EVERY prefix of the observed operations.      *)
EXTENDS Core, FsModel, FsPolicyOps, TLC, Json, IOUtils

Recs == ndJsonDeserialize(IOEnv.TRACE_FILE)
VARIABLES i
Ops(r) == [k \in DOMAIN r.ops |-> [kind |-> r.ops[k].kind, p |-> r.ops[k].p, p2 |-> r.ops[k].p2, d |-> r.ops[k].d, n |-> r.ops[k].extra]]

\* operations that really happened: everything that was logged except the faulted operation itself
\* (the log is written before each operation; after a crash it ends there; after an injected error the
\* code may go on - e.g. shutil.move falls back to a copy when its rename fails - and whatever it
\* logged afterwards did happen)
Before(r) == IF r.fault.at = 0 THEN Ops(r) ELSE SubSeq(Ops(r), 1, r.fault.at - 1)
After(r) == IF r.fault.at = 0 THEN <<>> ELSE SubSeq(Ops(r), r.fault.at + 1, Len(r.ops))
\* leftovers of an earlier interrupted edit (follow-up records) are part of the initial state
Start(r) == WithFiles(EmptyFs("Old"), [k \in DOMAIN r.init |-> <<r.init[k][1], r.init[k][2], r.init[k][3]>>])
AtFault(r) ==
    LET fs == Replay(Start(r), Before(r))
    IN IF r.fault.at > 0 /\ r.fault.kind \in {"torn", "torncrash"}
       THEN Torn(fs, Ops(r)[r.fault.at], r.fault.k) ELSE fs
Predicted(r) == Replay(AtFault(r), After(r))
EveryPrefixSafe(r) == /\ AllPrefixesSafe(Start(r), Before(r)) /\ Safe(AtFault(r))
                      /\ AllPrefixesSafe(AtFault(r), After(r))

Clause(r, c) ==
  CASE c = "C17.safe"   -> r.final \in {"Old", "New"}
    [] c = "C17.error"  -> /\ (r.status = "error" => r.final \in {"Old", "New"})
                           /\ (r.status = "ok" => (r.final = "New" \/ (r.same /\ r.final = "Old")))
                           \* (an unencodable request never succeeds and never costs the original - whether the run ends
                           \* with the error or is killed at an injected fault before it gets there)
                           /\ (~r.encodable => (r.status # "ok" /\ r.final = "Old"))
    [] c = "C17.works"  -> \* without a fault an encodable edit succeeds (a run the guard or the harness broke
                           \* must not pass for "nothing was lost")
                           (r.fault.at = 0 /\ r.fault.kind = "none" /\ r.encodable) => r.status = "ok"
    [] c = "C17.prefix" -> EveryPrefixSafe(r)
    [] c = "X17.fsmodel" -> \/ OnDisk(Predicted(r), "M") = r.final
                            \/ (r.same /\ {OnDisk(Predicted(r), "M"), r.final} \subseteq {"Old", "New"})
                            \* (which kind of incomplete content - a prefix or something else - is not modelled)
                            \/ {OnDisk(Predicted(r), "M"), r.final} \subseteq {"Partial", "Other"}
    [] c = "C18.readonly" -> r.status = "ok" /\ Len(r.ops) = 0 /\ r.added = <<>> /\ r.removed = <<>> /\ r.changed = <<>>
    [] c = "C18.create" -> /\ r.status = "ok" /\ PolicyOK("create", Ops(r))
                           /\ r.removed = <<>>
                           /\ SeqToSet(r.added) \cup SeqToSet(r.changed) = {"O"}
    [] c = "C18.rename" -> IF r.target_existed
                           THEN r.status # "ok" /\ Len(r.ops) = 0 /\ r.added = <<>> /\ r.removed = <<>> /\ r.changed = <<>>
                           ELSE /\ r.status = "ok" /\ PolicyOK("rename", Ops(r)) /\ Len(r.ops) = 1
                                /\ r.added = <<"N">> /\ r.removed = <<"M">> /\ r.changed = <<>> /\ r.same_bytes
    [] OTHER -> FALSE

Report(r) == \A k \in DOMAIN r.clauses :
                IF Clause(r, r.clauses[k]) THEN TRUE ELSE PrintT(<<"FAIL", r.id, r.clauses[k]>>)
Init == i = 0
Next == i < Len(Recs) /\ Report(Recs[i + 1]) /\ i' = i + 1
Spec == Init /\ [][Next]_i
AllConsumed == TLCGet("stats").diameter = Len(Recs) + 1
=============================================================================
