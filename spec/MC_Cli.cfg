SPECIFICATION Spec
CONSTANTS
  Variant = "fixed"
  MaxGroups = 4
INVARIANT CliRefines
INVARIANT ConfigRefines
INVARIANT KeywordRefines
CHECK_DEADLOCK FALSE
